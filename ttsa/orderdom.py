"""Evaluation of the rank selection (`rank_chop(s, eps)`) over the finite domain of orderings.

rank_chop touches the singular values only through sums of squares of *tails* of the spectrum and their comparison with the squared
threshold.  For a spectrum of n values the tail energies T_0 >= T_1 >= ... >= T_(n-1) >= 0 (T_k = s_k^2 + ... + s_(n-1)^2) can relate to
eps^2 in finitely many ways: a word in  '>'* '='* '<'*.  For every n <= 4 and every such word the function body is evaluated abstractly:

    values       the spectrum is a vector of symbols; squares, partial sums (numpy.cumsum / sum), norms and square roots of them are sets of
                 indices with a power; integers and booleans are concrete
    comparisons  (energy of a tail) ? eps^2, (norm of a tail) ? eps  - answered by the word; anything else leaves the domain (no verdict)
    control      if / while / for over concrete ranges / return, numpy.argmax / argmin / any / all / nonzero / count_nonzero on boolean vectors

and the returned rank R is held against the specification

    1 <= R <= n                                   (a rank)
    T_R <= eps^2        (T_n = 0)                 (accuracy: the discarded energy stays within the allowance)
    R <= max(1, first k with T_k < eps^2)          (minimality up to ties: no more is kept than the strict criterion keeps)

Two more instances: the zero spectrum (any rank 1..n) and eps = 0 (only zero tails may be discarded).  Nothing is executed: the walk is
over the syntax tree of the function in /repo, with the orderings standing in for the numbers."""
from __future__ import annotations

import ast
import itertools
from dataclasses import dataclass

from .model import Model, Func, norm


class Leave(Exception):
    """the evaluation left the modelled domain (no verdict)"""


class Cancellation(Exception):
    """a tail energy formed as (total) - (leading part) is compared with the threshold"""
    def __init__(self, e):
        self.e = e


class _Ret(Exception):
    def __init__(self, v):
        self.v = v


class _Brk(Exception):
    pass


class _Cnt(Exception):
    pass


@dataclass(frozen=True)
class E:
    """(sum of squares of the spectrum entries in `idx`) ** pw     pw = 1: energy, 1/2: norm;   raw entry s_i: E({i}, 1/2) with raw=True"""
    idx: frozenset
    pw: float
    raw: bool = False
    cancel: bool = False     # obtained as a difference of two accumulated sums (total minus leading part)
    neg: bool = False        # negated (only for order-reversing searches)


@dataclass(frozen=True)
class Eps:
    pw: int       # eps ** pw
    neg: bool = False


@dataclass
class Vec:
    items: list   # of E / bool / int

    def kind(self):
        if all(isinstance(x, bool) for x in self.items):
            return "bool"
        if all(isinstance(x, int) and not isinstance(x, bool) for x in self.items):
            return "int"
        return "sym"


@dataclass
class Instance:
    n: int
    word: str              # relation of the tail energy T_k to eps^2, k = 0..n-1
    sword: str = ""        # relation of the single value s_k to eps, k = 0..n-1 (only consulted by code that compares single values)
    zero: bool = False     # the spectrum is zero
    eps_zero: bool = False
    witness: tuple = ()    # a spectrum and a squared threshold with exactly these orderings (feasibility; never consulted for a verdict)

    def rel_tail(self, k):
        if k >= self.n:
            return "=" if self.eps_zero else "<"      # nothing discarded: 0 ? eps^2
        return self.word[k]

    def name(self):
        return (f"n={self.n}, tail energies vs eps^2: [{' '.join(self.word)}], values vs eps: [{' '.join(self.sword)}]"
                + (", zero spectrum" if self.zero else "") + (", eps = 0" if self.eps_zero else ""))


def instances(nmax=4):
    """every pair (ordering of the tail energies against eps^2, ordering of the single values against eps) that some non-increasing spectrum
    of n <= nmax values and some threshold realise - generated from exact small witnesses so that no infeasible ordering is ever evaluated"""
    from fractions import Fraction as F
    import itertools
    seen, out = set(), []
    rel = lambda a, b: "<" if a < b else (">" if a > b else "=")
    for n in range(1, nmax + 1):
        for sp in itertools.product((3, 2, 1, 0), repeat=n):
            if any(sp[i] < sp[i + 1] for i in range(n - 1)):
                continue
            tails = [sum(F(x * x) for x in sp[k:]) for k in range(n)]
            if tails[0] == 0:
                key = (n, "zero")
                if key not in seen:
                    seen.add(key)
                    out.append(Instance(n, "<" * n, "<" * n, zero=True, witness=(sp, F(1))))
                continue
            marks = sorted(set(tails) | {F(x * x) for x in sp})
            cands = set(marks)
            for a, b in zip([F(0)] + marks, marks + [marks[-1] + 2]):
                cands.add((a + b) / 2)
            for e2 in sorted(c for c in cands if c > 0):
                w = "".join(rel(t, e2) for t in tails)
                sw = "".join(rel(F(x * x), e2) for x in sp)
                key = (n, w, sw)
                if key not in seen:
                    seen.add(key)
                    out.append(Instance(n, w, sw, witness=(sp, e2)))
            # eps = 0: only exact zeros compare equal
            w0 = "".join(rel(t, 0) for t in tails)
            key = (n, w0, "eps0")
            if key not in seen:
                seen.add(key)
                out.append(Instance(n, w0, "".join(rel(F(x * x), 0) for x in sp), eps_zero=True, witness=(sp, F(0))))
    return out


_CMP = {ast.Lt: lambda r: r == "<", ast.LtE: lambda r: r in "<=", ast.Gt: lambda r: r == ">", ast.GtE: lambda r: r in ">=",
        ast.Eq: lambda r: r == "=", ast.NotEq: lambda r: r != "="}
_FLIP = {"<": ">", ">": "<", "=": "="}


class Eval:
    def __init__(self, model: Model, f: Func, inst: Instance):
        self.model, self.f, self.inst = model, f, inst
        self.steps = 0

    # ------------------------------------------------------------------ relations
    def rel(self, a, b):
        """'<' / '=' / '>' for a ? b"""
        inst = self.inst
        num = lambda x: isinstance(x, (int, float)) and not isinstance(x, bool)
        if num(a) and num(b):
            return "<" if a < b else (">" if a > b else "=")
        if isinstance(b, E) and not isinstance(a, E):
            return _FLIP[self.rel(b, a)]
        if isinstance(a, Eps) and num(b):
            if b == 0:
                return "=" if inst.eps_zero else ">"
            raise Leave("tolerance compared with a non-zero constant")
        if isinstance(b, Eps) and num(a):
            return _FLIP[self.rel(b, a)]
        if isinstance(a, E) and isinstance(b, (E, Eps)) and a.neg and getattr(b, "neg", False):
            return _FLIP[self.rel(E(a.idx, a.pw, a.raw, a.cancel), Eps(b.pw) if isinstance(b, Eps) else E(b.idx, b.pw, b.raw, b.cancel))]
        if isinstance(a, E):
            n = inst.n
            if a.cancel and isinstance(b, Eps):
                raise Cancellation(a)
            if len(a.idx) == 1 and isinstance(b, Eps) and abs(b.pw - 2 * a.pw) < 1e-9 and min(a.idx) != n - 1 and not inst.zero:
                return inst.sword[min(a.idx)]           # one singular value against the tolerance
            suffix = a.idx == frozenset(range(min(a.idx), n)) if a.idx else True
            if num(b):
                if b != 0:
                    raise Leave("energy compared with a non-zero constant")
                if inst.zero or not a.idx:
                    return "="
                if suffix and inst.eps_zero:
                    return inst.rel_tail(min(a.idx))
                if a.idx == frozenset(range(n)):
                    return ">"
                if suffix and inst.rel_tail(min(a.idx)) in ">=":
                    return ">"
                raise Leave("sign of a partial energy is not determined by the orderings")
            if isinstance(b, Eps):
                if abs(b.pw - 2 * a.pw) > 1e-9:
                    raise Leave(f"energy to the power {a.pw} compared with eps**{b.pw}")
                if not suffix:
                    raise Leave("a sum of squares that is not a tail of the spectrum is compared with the threshold")
                return inst.rel_tail(min(a.idx) if a.idx else n)
            if isinstance(b, E):
                if a == b:
                    return "="
                raise Leave("two energies compared with each other")
        raise Leave(f"comparison of {type(a).__name__} with {type(b).__name__}")

    # ------------------------------------------------------------------ expressions
    def ev(self, e, env):
        self.steps += 1
        if self.steps > 20000:
            raise Leave("evaluation does not terminate within the step bound")
        m = getattr(self, "ev_" + type(e).__name__, None)
        if m is None:
            raise Leave(f"expression {type(e).__name__}")
        return m(e, env)

    def ev_Constant(self, e, env):
        if isinstance(e.value, (int, float, bool)) or e.value is None:
            return e.value
        raise Leave("constant")

    def ev_Name(self, e, env):
        if e.id in env:
            return env[e.id]
        raise Leave(f"name {e.id}")

    def ev_UnaryOp(self, e, env):
        v = self.ev(e.operand, env)
        if isinstance(e.op, ast.Not):
            return not self.truth(v)
        if isinstance(e.op, ast.USub) and isinstance(v, (int, float)):
            return -v
        if isinstance(e.op, ast.USub) and isinstance(v, Vec):
            return Vec([self._neg(x) for x in v.items])
        if isinstance(e.op, ast.USub) and isinstance(v, (E, Eps)):
            return self._neg(v)
        if isinstance(e.op, ast.Invert) and isinstance(v, Vec) and v.kind() == "bool":
            return Vec([not x for x in v.items])
        raise Leave("unary operator")

    def _neg(self, x):
        if isinstance(x, E):
            return E(x.idx, x.pw, x.raw, x.cancel, not x.neg)
        if isinstance(x, Eps):
            return Eps(x.pw, not x.neg)
        if isinstance(x, (int, float)) and not isinstance(x, bool):
            return -x
        raise Leave("negation")

    def ev_BoolOp(self, e, env):
        if isinstance(e.op, ast.And):
            v = True
            for x in e.values:
                v = self.ev(x, env)
                if not self.truth(v):
                    return v
            return v
        v = False
        for x in e.values:
            v = self.ev(x, env)
            if self.truth(v):
                return v
        return v

    def ev_IfExp(self, e, env):
        return self.ev(e.body if self.truth(self.ev(e.test, env)) else e.orelse, env)

    def truth(self, v):
        if isinstance(v, bool):
            return v
        if isinstance(v, (int, float)):
            return v != 0
        if v is None:
            return False
        if isinstance(v, Vec) and len(v.items) == 1 and isinstance(v.items[0], bool):
            return v.items[0]
        raise Leave("truth value of a symbolic quantity")

    def ev_Compare(self, e, env):
        left = self.ev(e.left, env)
        res = True
        for op, c in zip(e.ops, e.comparators):
            right = self.ev(c, env)
            r = self.cmp(op, left, right)
            if isinstance(r, Vec):
                if len(e.ops) != 1:
                    raise Leave("chained comparison of vectors")
                return r
            if not r:
                return False
            left = right
        return res

    def cmp(self, op, a, b):
        if type(op) not in _CMP:
            raise Leave("comparison operator")
        if isinstance(a, Vec) and not isinstance(b, Vec):
            return Vec([self.cmp(op, x, b) for x in a.items])
        if isinstance(b, Vec) and not isinstance(a, Vec):
            return Vec([self.cmp(op, a, x) for x in b.items])
        if isinstance(a, Vec) and isinstance(b, Vec):
            if len(a.items) != len(b.items):
                raise Leave("comparison of vectors of different length")
            return Vec([self.cmp(op, x, y) for x, y in zip(a.items, b.items)])
        if isinstance(a, bool) or isinstance(b, bool):
            a, b = int(a) if isinstance(a, bool) else a, int(b) if isinstance(b, bool) else b
        return _CMP[type(op)](self.rel(a, b))

    def ev_BinOp(self, e, env):
        a, b = self.ev(e.left, env), self.ev(e.right, env)
        return self.binop(e.op, a, b)

    def binop(self, op, a, b):
        num = lambda x: isinstance(x, (int, float)) and not isinstance(x, bool)
        if isinstance(a, bool):
            a = int(a)
        if isinstance(b, bool):
            b = int(b)
        if num(a) and num(b):
            try:
                if isinstance(op, ast.Add):
                    return a + b
                if isinstance(op, ast.Sub):
                    return a - b
                if isinstance(op, ast.Mult):
                    return a * b
                if isinstance(op, ast.FloorDiv):
                    return a // b
                if isinstance(op, ast.Mod):
                    return a % b
                if isinstance(op, ast.Pow):
                    return a ** b
                if isinstance(op, ast.Div):
                    return a / b
            except ZeroDivisionError:
                raise Leave("division by zero")
            raise Leave("operator")
        if isinstance(a, Vec) and not isinstance(b, Vec):
            return Vec([self.binop(op, x, b) for x in a.items])
        if isinstance(b, Vec) and not isinstance(a, Vec):
            return Vec([self.binop(op, a, y) for y in b.items])
        if isinstance(a, Vec) and isinstance(b, Vec) and len(a.items) == len(b.items):
            return Vec([self.binop(op, x, y) for x, y in zip(a.items, b.items)])
        if isinstance(op, ast.Pow) and num(b):
            if isinstance(a, E):
                if a.neg:
                    raise Leave("power of a negated quantity")
                return E(a.idx, a.pw * b, False, a.cancel)
            if isinstance(a, Eps):
                p = a.pw * b
                if abs(p - round(p)) > 1e-9:
                    raise Leave("fractional power of the tolerance")
                return Eps(int(round(p)))
        if isinstance(op, ast.Mult) and isinstance(a, E) and isinstance(b, E) and a == b:
            return E(a.idx, a.pw * 2)
        if isinstance(op, ast.Mult) and isinstance(a, Eps) and isinstance(b, Eps):
            return Eps(a.pw + b.pw)
        if isinstance(op, ast.Sub) and isinstance(a, E) and isinstance(b, E) and a.pw == 1 and b.pw == 1 and b.idx <= a.idx and not a.neg and not b.neg:
            # (sum over a) - (sum over part of a): exact arithmetic gives the sum over the rest; in floating point the result carries the
            # rounding error of the *larger* sums
            return E(a.idx - b.idx, 1, False, True)
        if isinstance(op, ast.Add) and isinstance(a, E) and isinstance(b, E) and a.pw == 1 and b.pw == 1 and not (a.idx & b.idx):
            return E(a.idx | b.idx, 1, False, a.cancel or b.cancel)
        if isinstance(op, ast.Add) and isinstance(a, E) and num(b) and b == 0:
            return a
        if isinstance(op, ast.Add) and isinstance(b, E) and num(a) and a == 0:
            return b
        raise Leave(f"arithmetic on {type(a).__name__} and {type(b).__name__}")

    def ev_Subscript(self, e, env):
        v = self.ev(e.value, env)
        if isinstance(v, tuple):
            i = self.ev(e.slice, env)
            if isinstance(i, int):
                return v[i]
            raise Leave("index of a tuple")
        if not isinstance(v, Vec):
            raise Leave("subscript of a scalar")
        sl = e.slice
        if isinstance(sl, ast.Slice):
            lo = self.ev(sl.lower, env) if sl.lower is not None else None
            hi = self.ev(sl.upper, env) if sl.upper is not None else None
            st = self.ev(sl.step, env) if sl.step is not None else None
            if not all(x is None or (isinstance(x, int) and not isinstance(x, bool)) for x in (lo, hi, st)):
                raise Leave("symbolic slice")
            return Vec(v.items[slice(lo, hi, st)])
        i = self.ev(sl, env)
        if isinstance(i, Vec) and i.kind() == "bool" and len(i.items) == len(v.items):
            return Vec([x for x, keep in zip(v.items, i.items) if keep])
        if isinstance(i, int) and not isinstance(i, bool):
            try:
                return v.items[i]
            except IndexError:
                raise Leave("index out of range (IndexError at run time)")
        raise Leave("index")

    def ev_Attribute(self, e, env):
        v = self.ev(e.value, env)
        if isinstance(v, Vec):
            if e.attr == "size":
                return len(v.items)
            if e.attr == "shape":
                return (len(v.items),)
        raise Leave(f"attribute {e.attr}")

    def ev_Tuple(self, e, env):
        return tuple(self.ev(x, env) for x in e.elts)

    def ev_Call(self, e, env):
        fn = e.func
        args = [self.ev(a, env) for a in e.args]
        r = self.model.resolve(self.f.module, fn)
        if e.keywords and not (r or "").endswith("searchsorted"):
            raise Leave("keyword argument")
        name = r.rsplit(".", 1)[-1] if r else None
        recv = None
        if r is None and isinstance(fn, ast.Attribute):
            recv = self.ev(fn.value, env)
            name = fn.attr
            args = [recv] + args
        if r is not None and not r.startswith(("numpy.", "builtins.", "math.", "torch.")):
            raise Leave(f"call of {r}")
        if name in ("abs", "absolute", "fabs", "asarray", "array", "float", "double", "real", "copy", "cpu", "numpy", "flatten", "ravel"):
            return args[0]
        if name == "int" and isinstance(args[0], (int, bool)):
            return int(args[0])
        if name == "item":
            return args[0]
        if name == "len":
            if isinstance(args[0], (Vec,)):
                return len(args[0].items)
            if isinstance(args[0], tuple):
                return len(args[0])
        if name in ("flip", "flipud") and isinstance(args[0], Vec):
            return Vec(args[0].items[::-1])
        if name == "square":
            return self.binop(ast.Pow(), args[0], 2)
        if name == "sqrt":
            return self.binop(ast.Pow(), args[0], 0.5)
        if name == "norm" and isinstance(args[0], Vec) and len(args) == 1:
            idx = frozenset()
            for x in args[0].items:
                if not (isinstance(x, E) and x.raw):
                    raise Leave("norm of a derived vector")
                idx |= x.idx
            return E(idx, 0.5)
        if name == "cumsum" and isinstance(args[0], Vec) and len(args) == 1:
            out, acc = [], None
            for x in args[0].items:
                acc = x if acc is None else self.binop(ast.Add(), acc, x)
                out.append(acc)
            return Vec(out)
        if name in ("sum", "count_nonzero") and isinstance(args[0], Vec) and len(args) == 1:
            v = args[0]
            if v.kind() == "bool":
                return sum(1 for x in v.items if x)
            if name == "count_nonzero":
                raise Leave("count_nonzero of symbolic values")
            acc = 0
            for x in v.items:
                acc = self.binop(ast.Add(), acc, x)
            return acc
        if name == "dot" and len(args) == 2 and isinstance(args[0], Vec) and args[0] is args[1]:
            return self.ev_call_sum_sq(args[0])
        if name in ("argmax", "argmin", "any", "all", "nonzero", "flatnonzero", "where") and isinstance(args[0], Vec) and len(args) == 1:
            b = args[0]
            if b.kind() != "bool":
                raise Leave(f"{name} of a vector that is not boolean")
            if name == "argmax":
                return next((i for i, x in enumerate(b.items) if x), 0)
            if name == "argmin":
                return next((i for i, x in enumerate(b.items) if not x), 0)
            if name == "any":
                return any(b.items)
            if name == "all":
                return all(b.items)
            idx = Vec([i for i, x in enumerate(b.items) if x])
            return idx if name == "flatnonzero" else (idx,)
        if name in ("min", "max") and args and all(isinstance(a, int) and not isinstance(a, bool) for a in (args if len(args) > 1 else (args[0].items if isinstance(args[0], Vec) else args[0]))):
            vals = args if len(args) > 1 else (args[0].items if isinstance(args[0], Vec) else list(args[0]))
            return min(vals) if name == "min" else max(vals)
        if name == "range" and all(isinstance(a, int) for a in args):
            return Vec(list(range(*args)))
        if name == "searchsorted" and len(args) == 2 and isinstance(args[0], Vec) and isinstance(args[1], (E, Eps)):
            # numpy.searchsorted(a, v, side): a ascending.  The spectrum is non-increasing, so an ascending vector is its negation (or its reverse)
            side = "left"
            for kw in e.keywords:
                if kw.arg == "side" and isinstance(kw.value, ast.Constant):
                    side = kw.value.value
                else:
                    raise Leave("searchsorted keyword")
            a, v = args[0], args[1]
            if not all(isinstance(x, E) and x.raw and len(x.idx) == 1 for x in a.items):
                raise Leave("searchsorted over a derived vector")
            negs = {x.neg for x in a.items}
            order = [min(x.idx) for x in a.items]
            if negs == {True} and order == sorted(order) and getattr(v, "neg", False):
                pass        # -s ascending, compared with -eps
            elif negs == {False} and order == sorted(order, reverse=True) and not getattr(v, "neg", False):
                pass        # s[::-1] ascending, compared with eps
            else:
                raise Leave("searchsorted over a vector that is not known to be ascending")
            for i, x in enumerate(a.items):
                r = self.rel(x, v)
                if (side == "left" and r in ">=") or (side == "right" and r == ">"):
                    return i
            return len(a.items)
        raise Leave(f"call of {r or name}")

    def ev_call_sum_sq(self, v):
        acc = 0
        for x in v.items:
            acc = self.binop(ast.Add(), acc, self.binop(ast.Pow(), x, 2))
        return acc

    # ------------------------------------------------------------------ statements
    def block(self, stmts, env):
        for s in stmts:
            self.stmt(s, env)

    def stmt(self, s, env):
        self.steps += 1
        if self.steps > 20000:
            raise Leave("evaluation does not terminate within the step bound")
        if isinstance(s, ast.Expr):
            if isinstance(s.value, ast.Constant):
                return
            if isinstance(s.value, ast.Call) and isinstance(s.value.func, ast.Name) and s.value.func.id == "print":
                return
            self.ev(s.value, env)
            return
        if isinstance(s, ast.Pass):
            return
        if isinstance(s, ast.Assign):
            v = self.ev(s.value, env)
            for t in s.targets:
                if isinstance(t, ast.Name):
                    env[t.id] = v
                elif isinstance(t, ast.Tuple) and isinstance(v, tuple) and len(v) == len(t.elts) and all(isinstance(x, ast.Name) for x in t.elts):
                    for x, y in zip(t.elts, v):
                        env[x.id] = y
                else:
                    raise Leave("assignment target")
            return
        if isinstance(s, ast.AugAssign) and isinstance(s.target, ast.Name):
            env[s.target.id] = self.binop(s.op, self.ev(ast.Name(id=s.target.id, ctx=ast.Load()), env), self.ev(s.value, env))
            return
        if isinstance(s, ast.If):
            self.block(s.body if self.truth(self.ev(s.test, env)) else s.orelse, env)
            return
        if isinstance(s, ast.Return):
            raise _Ret(self.ev(s.value, env) if s.value is not None else None)
        if isinstance(s, ast.While):
            while self.truth(self.ev(s.test, env)):
                try:
                    self.block(s.body, env)
                except _Brk:
                    return
                except _Cnt:
                    continue
            self.block(s.orelse, env)
            return
        if isinstance(s, ast.For) and isinstance(s.target, ast.Name):
            it = self.ev(s.iter, env)
            if not (isinstance(it, Vec) and it.kind() in ("int", "bool")):
                raise Leave("loop over a symbolic sequence")
            for x in it.items:
                env[s.target.id] = x
                try:
                    self.block(s.body, env)
                except _Brk:
                    return
                except _Cnt:
                    continue
            self.block(s.orelse, env)
            return
        if isinstance(s, ast.Break):
            raise _Brk()
        if isinstance(s, ast.Continue):
            raise _Cnt()
        if isinstance(s, ast.Assert):
            return
        raise Leave(f"statement {type(s).__name__}")


def evaluate(model: Model, f: Func, inst: Instance):
    """the returned rank for this instance (an int), or raises Leave"""
    params = f.params()
    if len(params) < 2:
        raise Leave("rank_chop no longer takes (s, eps)")
    ev = Eval(model, f, inst)
    env = {params[0]: Vec([E(frozenset([i]), 0.5, True) for i in range(inst.n)]), params[1]: Eps(1)}
    try:
        ev.block(f.node.body, env)
    except _Ret as r:
        return r.v
    return None


def admissible(inst: Instance, R):
    """(ok, reason) for the returned rank"""
    n = inst.n
    if isinstance(R, bool) or not isinstance(R, int):
        return False, f"the result {R!r} is not an integer rank"
    if not 1 <= R <= n:
        return False, f"the result {R} is not a rank between 1 and the number of singular values {n}"
    if inst.zero:
        return True, "zero spectrum: any rank"
    if inst.rel_tail(R) == ">":
        return False, (f"rank {R} discards the tail s[{R}:] whose energy exceeds eps^2: the truncation error of this bond is larger than its allowance")
    if inst.eps_zero:
        return True, f"rank {R}: only zero singular values are discarded"
    strict = next((k for k in range(n) if inst.word[k] == "<"), n)
    if R > max(1, strict):
        return False, (f"rank {R} is kept although the tail s[{max(1, strict)}:] is already strictly below the allowance: "
                       f"the selected rank is not the smallest admissible one")
    return True, f"rank {R}: discarded energy within the allowance, nothing smaller is strictly admissible"


def decide(model: Model, f: Func, nmax=4):
    """[(instance, status, detail)] with status ok / violated / leave"""
    out = []
    for inst in instances(nmax):
        try:
            R = evaluate(model, f, inst)
        except Leave as l:
            out.append((inst, "leave", str(l)))
            continue
        except Cancellation as c:
            out.append((inst, "violated", "the energy of a tail is formed as a difference of two accumulated sums (total minus leading part) and then compared "
                                          "with eps^2: in floating point the difference carries the rounding error of the *total* energy (about 1e-16 * ||s||^2), "
                                          "which exceeds eps^2 * ||s||^2 for every relative tolerance below 1e-8 - the comparison then decides on noise "
                                          "(tails are accumulated from the small end for this reason)"))
            continue
        except RecursionError:
            out.append((inst, "leave", "recursion"))
            continue
        ok, why = admissible(inst, R)
        out.append((inst, "ok" if ok else "violated", why))
    return out
