"""Alpha-renaming of all local variables (behaviour-preserving): the checks must give the same verdict on the renamed program."""
import ast
import os
import shutil
import sys


class Renamer(ast.NodeTransformer):
    def __init__(self, suffix):
        self.suffix = suffix
        self.stack = []

    def _locals(self, fn):
        a = fn.args
        params = {x.arg for x in a.posonlyargs + a.args + a.kwonlyargs}
        if a.vararg:
            params.add(a.vararg.arg)
        if a.kwarg:
            params.add(a.kwarg.arg)
        decl = set()
        stored = set()
        for n in ast.walk(fn):
            if isinstance(n, (ast.Global, ast.Nonlocal)):
                decl |= set(n.names)
            if isinstance(n, ast.Name) and isinstance(n.ctx, (ast.Store, ast.Del)):
                stored.add(n.id)
            if isinstance(n, (ast.FunctionDef, ast.Lambda)) and n is not fn:
                na = n.args
                params |= {x.arg for x in na.posonlyargs + na.args + na.kwonlyargs}
            if isinstance(n, (ast.Import, ast.ImportFrom)):
                for al in n.names:
                    decl.add((al.asname or al.name).split(".")[0])
            if isinstance(n, ast.ExceptHandler) and n.name:
                decl.add(n.name)
        return {x for x in stored if x not in params and x not in decl and not x.startswith("__") and x != "_"}

    def visit_FunctionDef(self, node):
        if self.stack:
            # nested function: its own locals are renamed by the enclosing walk already (same suffix) - keep consistent
            self.generic_visit(node)
            return node
        loc = self._locals(node)
        self.stack.append(loc)
        self.generic_visit(node)
        self.stack.pop()
        return node

    def visit_Name(self, node):
        if self.stack and node.id in self.stack[-1]:
            return ast.copy_location(ast.Name(id=node.id + self.suffix, ctx=node.ctx), node)
        return node




def rename_tree(pkgdir, suffix="_r"):
    """rename the locals of every function in every module under pkgdir (in place)"""
    import warnings
    n = 0
    for root, _, files in os.walk(pkgdir):
        for fn in files:
            if not fn.endswith(".py") or fn == "_torchtt.py":
                continue
            p = os.path.join(root, fn)
            with warnings.catch_warnings():
                warnings.simplefilter("ignore")
                tree = ast.parse(open(p, encoding="utf-8").read())
            tree = Renamer(suffix).visit(tree)
            ast.fix_missing_locations(tree)
            with open(p, "w", encoding="utf-8") as f:
                f.write(ast.unparse(tree) + "\n")
            n += 1
    return n


class ParamRenamer(ast.NodeTransformer):
    """renames the parameters (except self) of operator dunders and of private functions that are never called with keywords"""

    def __init__(self, suffix, skip):
        self.suffix, self.skip = suffix, skip

    def visit_FunctionDef(self, node):
        dunder = node.name.startswith("__") and node.name.endswith("__") and node.name not in ("__init__", "__getitem__")
        private = node.name.startswith("_") and not node.name.startswith("__") and node.name not in self.skip
        if not (dunder or private):
            self.generic_visit(node)
            return node
        a = node.args
        m = {x.arg: x.arg + self.suffix for x in a.posonlyargs + a.args if x.arg != "self"}
        for x in a.posonlyargs + a.args:
            if x.arg in m:
                x.arg = m[x.arg]

        class N(ast.NodeTransformer):
            def visit_Name(s, n):
                return ast.copy_location(ast.Name(id=m[n.id], ctx=n.ctx), n) if n.id in m else n
        node.body = [N().visit(b) for b in node.body]
        return node


def rename_params(pkgdir, suffix="_p"):
    import warnings
    trees = {}
    kw_callees = set()
    for root, _, files in os.walk(pkgdir):
        for fn in files:
            if fn.endswith(".py") and fn != "_torchtt.py":
                p = os.path.join(root, fn)
                with warnings.catch_warnings():
                    warnings.simplefilter("ignore")
                    trees[p] = ast.parse(open(p, encoding="utf-8").read())
                for n in ast.walk(trees[p]):
                    if isinstance(n, ast.Call) and any(k.arg for k in n.keywords):
                        kw_callees.add(ast.unparse(n.func).split(".")[-1])
    for p, t in trees.items():
        t = ParamRenamer(suffix, kw_callees).visit(t)
        ast.fix_missing_locations(t)
        with open(p, "w", encoding="utf-8") as f:
            f.write(ast.unparse(t) + "\n")
    return len(trees)
