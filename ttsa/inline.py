"""Source-level inlining of private helpers, so that rules which read the *shape* of one function keep seeing it after an
"extract method" refactoring.

Two call forms are replaced by the callee's body (same module only, private callee `_name`, at most `depth` levels):

  void   `self._helper(a, b)` / `_helper(a, b)` as an expression statement, when the callee never returns a value and has no
         early `return`;
  tail   `return self._helper(a, b)` / `return _helper(a, b)`: the callee's body, its returns kept (the call is in tail position);
  value  `x = self._helper(a, b)` when the callee's only `return <expr>` is its last statement: the body, then `x = <expr>`;
  expr   `... _helper(a, b) ...` anywhere in an expression when the callee's body is the single statement `return <expr>` and the arguments
         are side-effect free: the expression with the arguments put in.

Parameters are bound by name: a parameter whose argument is a plain name (or `self`) and which the callee never re-binds is
renamed to the argument; any other parameter becomes a fresh local assigned once before the body (`p__i1 = <argument>`), defaults
included.  The callee's own locals get the same suffix, so nothing is captured.  Calls with *args / **kwargs, keyword arguments
that do not name a parameter, generators, nested functions or `global` statements are left alone.

Line numbers of the inlined statements are the callee's (same file), so reports still point at the real source line."""
from __future__ import annotations

import ast
import copy
import dataclasses

from .model import Model, Func


def _private(name: str) -> bool:
    return name.startswith("_") and not (name.startswith("__") and name.endswith("__"))


def _callee(model: Model, f: Func, call: ast.Call):
    fn = call.func
    if isinstance(fn, ast.Attribute) and isinstance(fn.value, ast.Name) and fn.value.id == "self" and f.cls is not None and _private(fn.attr):
        g = model.functions.get(f"{f.module.name}.{f.cls}.{fn.attr}")
        return g, True
    if isinstance(fn, ast.Name) and _private(fn.id):
        g = model.functions.get(f"{f.module.name}.{fn.id}")
        if g is not None and g.cls is None:
            return g, False
    return None, False


def _simple_body(g: Func) -> bool:
    for n in ast.walk(g.node):
        if n is g.node:
            continue
        if isinstance(n, (ast.AsyncFunctionDef, ast.ClassDef, ast.Yield, ast.YieldFrom, ast.Global, ast.Nonlocal, ast.Await)):
            return False
        if isinstance(n, ast.FunctionDef) and (n.decorator_list or any(isinstance(x, ast.Return) for x in ast.walk(n)) and False):
            return False
    if g.node.decorator_list:
        return False
    a = g.node.args
    return not (a.kwarg or a.posonlyargs)


def _returns(g: Func):
    """the return statements of g itself (not those of functions defined inside it)"""
    out = []

    def go(n):
        for c in ast.iter_child_nodes(n):
            if isinstance(c, (ast.FunctionDef, ast.AsyncFunctionDef, ast.Lambda)):
                continue
            if isinstance(c, ast.Return):
                out.append(c)
            go(c)
    go(g.node)
    return out


class _Rename(ast.NodeTransformer):
    def __init__(self, mapping):
        self.m = mapping

    def visit_Name(self, n):
        if n.id in self.m:
            r = self.m[n.id]
            if isinstance(r, str):
                return ast.copy_location(ast.Name(id=r, ctx=n.ctx), n)
            return ast.copy_location(copy.deepcopy(r), n)
        return n

    def visit_FunctionDef(self, n):
        # a function defined inside: its own name follows the mapping, its parameters shadow it
        if isinstance(self.m.get(n.name), str):
            n.name = self.m[n.name]
        a = n.args
        own = {x.arg for x in a.posonlyargs + a.args + a.kwonlyargs} | ({a.vararg.arg} if a.vararg else set()) | ({a.kwarg.arg} if a.kwarg else set())
        inner = _Rename({k: v for k, v in self.m.items() if k not in own})
        n.body = [inner.visit(st) for st in n.body]
        n.decorator_list = [self.visit(d) for d in n.decorator_list]
        a.defaults = [self.visit(d) for d in a.defaults]
        a.kw_defaults = [self.visit(d) if d is not None else None for d in a.kw_defaults]
        return n

    def visit_Lambda(self, n):
        a = n.args
        own = {x.arg for x in a.posonlyargs + a.args + a.kwonlyargs} | ({a.vararg.arg} if a.vararg else set()) | ({a.kwarg.arg} if a.kwarg else set())
        n.body = _Rename({k: v for k, v in self.m.items() if k not in own}).visit(n.body)
        return n


def _as_load(t):
    t = copy.deepcopy(t)
    for n in ast.walk(t):
        if hasattr(n, "ctx"):
            n.ctx = ast.Load()
    return t


def _expand(model: Model, f: Func, call: ast.Call, counter: list):
    """(prologue statements, body statements) of the inlined callee, or None"""
    g, is_method = _callee(model, f, call)
    if g is None or g.qual == f.qual or not _simple_body(g):
        return None
    if any(isinstance(a, ast.Starred) for a in call.args) or any(k.arg is None for k in call.keywords):
        return None
    params = g.params()
    if is_method:
        if not params:
            return None
        bind = {params[0]: ast.Name(id="self", ctx=ast.Load())}
        rest = params[1:]
    else:
        bind, rest = {}, params
    va = g.node.args.vararg.arg if g.node.args.vararg is not None else None
    if len(call.args) > len(rest) and va is None:
        return None
    for p, a in zip(rest, call.args):
        bind[p] = a
    if va is not None:
        # *operands: the tuple of the remaining positional arguments (read-only use: iteration, indexing, len)
        extra = list(call.args[len(rest):])
        if not all(_pure_arg(a) for a in extra) or any(isinstance(n, ast.Name) and n.id == va and isinstance(n.ctx, (ast.Store, ast.Del)) for n in ast.walk(g.node)):
            return None
        bind[va] = ast.Tuple(elts=extra, ctx=ast.Load())
        params = params + [va]
    kwonly = [x.arg for x in g.node.args.kwonlyargs]
    for k in call.keywords:
        if (k.arg not in rest and k.arg not in kwonly) or k.arg in bind:
            return None
        bind[k.arg] = k.value
    defaults = g.node.args.defaults
    for p, dflt in zip(params[len(params) - len(defaults):], defaults):
        bind.setdefault(p, dflt)
    for x, dflt in zip(g.node.args.kwonlyargs, g.node.args.kw_defaults):
        if dflt is not None:
            bind.setdefault(x.arg, dflt)
    params = params + kwonly
    if any(p not in bind for p in params):
        return None
    counter[0] += 1
    suffix = f"__i{counter[0]}"
    stored = {n.id for n in ast.walk(g.node) if isinstance(n, ast.Name) and isinstance(n.ctx, (ast.Store, ast.Del))}
    mapping = {}
    prologue = []
    for p in params:
        a = bind[p]
        if isinstance(a, ast.Name) and p not in stored:
            mapping[p] = a.id
        elif p == va:
            mapping[p] = a            # the display itself is put in place of the parameter
        else:
            mapping[p] = p + suffix
            st = ast.Assign(targets=[ast.Name(id=p + suffix, ctx=ast.Store())], value=copy.deepcopy(a))
            prologue.append(ast.copy_location(st, call))
    for nm in stored:
        if nm not in params:
            mapping[nm] = nm + suffix
    for n in ast.walk(g.node):
        if isinstance(n, ast.FunctionDef) and n is not g.node and n.name not in params:
            mapping[n.name] = n.name + suffix          # local helper functions are locals too
    body = [_Rename(mapping).visit(copy.deepcopy(s)) for s in g.node.body]
    # drop the docstring
    if body and isinstance(body[0], ast.Expr) and isinstance(body[0].value, ast.Constant) and isinstance(body[0].value.value, str):
        body = body[1:]
    for s in prologue:
        ast.fix_missing_locations(s)
    return g, prologue, body or [ast.copy_location(ast.Pass(), call)]


def _tail_returns(stmts) -> int:
    """number of `return` statements in tail position of a statement list (its last statement, recursively through a final if/elif/else
    whose branches all end in return / raise); -1 when the list does not end every path that way"""
    if not stmts:
        return -1
    last = stmts[-1]
    if isinstance(last, ast.Return):
        return 1
    if isinstance(last, ast.Raise):
        return 0
    if isinstance(last, ast.If) and last.orelse:
        a, b = _tail_returns(last.body), _tail_returns(last.orelse)
        return -1 if a < 0 or b < 0 else a + b
    return -1


def _returns_to_assign(stmts, targets, at):
    out = list(stmts)
    last = out[-1]
    if isinstance(last, ast.Return):
        new = ast.copy_location(ast.Assign(targets=copy.deepcopy(targets), value=last.value), last)
        ast.fix_missing_locations(new)
        out[-1] = new
    elif isinstance(last, ast.If):
        last.body = _returns_to_assign(last.body, targets, at)
        last.orelse = _returns_to_assign(last.orelse, targets, at)
    return out


def _has_own_return(s):
    todo = [s]
    while todo:
        n = todo.pop()
        if isinstance(n, ast.Return):
            return True
        if isinstance(n, (ast.FunctionDef, ast.AsyncFunctionDef, ast.Lambda, ast.ClassDef)) and n is not s:
            continue
        todo.extend(ast.iter_child_nodes(n))
    return False


def _always_returns(stmts):
    if not stmts:
        return False
    last = stmts[-1]
    if isinstance(last, ast.Return):
        return True
    if isinstance(last, ast.If) and last.orelse:
        return _always_returns(last.body) and _always_returns(last.orelse)
    return False


def _without_early_returns(stmts, cont=(), targets=None):
    """`stmts` followed by `cont`, where a bare `return` in stmts skips everything that follows, rewritten without any return:
           if c: A; return          if c: A
           B                  ->    else: B
    (guard-clause style back to nested branches).  None when a return sits inside a loop / try / with, or returns a value."""
    out = []
    stmts = list(stmts) + list(cont)       # (the continuation is itself freed of returns)
    cont = ()
    for i, s in enumerate(stmts):
        if isinstance(s, ast.Return):
            if targets is not None:
                # value helper: `return X` stores X in the caller's target and skips the rest
                if s.value is None:
                    return None
                new = ast.copy_location(ast.Assign(targets=copy.deepcopy(targets), value=s.value), s)
                ast.fix_missing_locations(new)
                return out + [new]
            if s.value is not None and not (isinstance(s.value, ast.Constant) and s.value.value is None):
                return None
            return out
        if isinstance(s, ast.If) and _has_own_return(s):
            rest = stmts[i + 1:] + list(cont)
            if _always_returns(s.body) and not _has_own_return_block(s.orelse):
                b, o = _without_early_returns(s.body, (), targets), _without_early_returns(s.orelse, rest, targets)
            elif s.orelse and _always_returns(s.orelse) and not _has_own_return_block(s.body):
                b, o = _without_early_returns(s.body, rest, targets), _without_early_returns(s.orelse, (), targets)
            else:
                b, o = _without_early_returns(s.body, copy.deepcopy(rest), targets), _without_early_returns(s.orelse, rest, targets)
            if b is None or o is None:
                return None
            new = ast.copy_location(ast.If(test=s.test, body=b or [ast.copy_location(ast.Pass(), s)], orelse=o), s)
            return out + [new]
        if _has_own_return(s):
            return None
        out.append(s)
    return out + list(cont)


def _always_leaves(stmts):
    """every path through the statements ends in a return or a raise (no path falls off the end)"""
    if not stmts:
        return False
    last = stmts[-1]
    if isinstance(last, (ast.Return, ast.Raise)):
        return True
    if isinstance(last, ast.If) and last.orelse:
        return _always_leaves(last.body) and _always_leaves(last.orelse)
    return False


def _has_own_return_block(stmts):
    return any(_has_own_return(s) for s in stmts)


def _pure_arg(e) -> bool:
    """an argument that may be duplicated / moved: names, attributes, constants, subscripts and arithmetic of those, len(...)"""
    return all(isinstance(x, (ast.Name, ast.Attribute, ast.Constant, ast.Subscript, ast.BinOp, ast.UnaryOp, ast.operator, ast.unaryop, ast.expr_context,
                              ast.Tuple, ast.List, ast.Slice)) or (isinstance(x, ast.Call) and isinstance(x.func, ast.Name) and x.func.id == "len")
               for x in ast.walk(e))


class _ExprInline(ast.NodeTransformer):
    """`_helper(a, b)` inside an expression, where the helper's body is one `return <expr>`: the expression with the arguments put in"""

    def __init__(self, model, f, counter, depth):
        self.model, self.f, self.counter, self.depth = model, f, counter, depth

    def visit_Call(self, n):
        self.generic_visit(n)
        if self.depth <= 0:
            return n
        g, is_method = _callee(self.model, self.f, n)
        if g is None or g.qual == self.f.qual or not _simple_body(g) or any(k.arg is None for k in n.keywords) or any(isinstance(a, ast.Starred) for a in n.args) \
                or g.node.args.vararg is not None or g.node.args.kwonlyargs:
            return n
        body = [st for st in g.node.body if not (isinstance(st, ast.Expr) and isinstance(st.value, ast.Constant) and isinstance(st.value.value, str))]
        if len(body) != 1 or not isinstance(body[0], ast.Return) or body[0].value is None:
            return n
        params = g.params()
        args = ([ast.Name(id="self", ctx=ast.Load())] if is_method else []) + list(n.args)
        defaults = g.node.args.defaults
        if len(args) > len(params) or len(args) + len(n.keywords) < len(params) - len(defaults):
            return n
        if not all(_pure_arg(a) for a in args):
            # any argument may be put in when the body is a chain of conversions rooted at the one parameter: `return S.cpu().numpy()`
            root = body[0].value
            while True:
                if isinstance(root, ast.Call) and isinstance(root.func, ast.Attribute) and all(_pure_arg(a) for a in root.args) and not root.keywords:
                    root = root.func.value
                elif isinstance(root, ast.Attribute):
                    root = root.value
                else:
                    break
            if not (len(params) == 1 and isinstance(root, ast.Name) and root.id == params[0]
                    and sum(1 for x in ast.walk(body[0].value) if isinstance(x, ast.Name) and x.id == params[0]) == 1):
                return n
        bind = dict(zip(params, args))
        for k in n.keywords:
            if k.arg not in params or k.arg in bind or not _pure_arg(k.value):
                return n
            bind[k.arg] = k.value
        for p, dflt in zip(params[len(params) - len(defaults):], defaults):
            bind.setdefault(p, dflt)
        if any(p not in bind for p in params):
            return n
        # names bound inside the expression (comprehension variables) must not collide with the arguments' names
        inner = {x.id for x in ast.walk(body[0].value) if isinstance(x, ast.Name) and isinstance(x.ctx, ast.Store)}
        if inner & {x.id for a in bind.values() for x in ast.walk(a) if isinstance(x, ast.Name)}:
            return n
        self.counter[0] += 1
        e = _Rename(bind).visit(copy.deepcopy(body[0].value))
        e = _ExprInline(self.model, self.f, self.counter, self.depth - 1).visit(e)
        return ast.copy_location(e, n)


def _inline_block(model: Model, f: Func, stmts: list, depth: int, counter: list) -> list:
    out = []
    for s in stmts:
        if depth > 0 and not isinstance(s, (ast.FunctionDef, ast.AsyncFunctionDef, ast.ClassDef)):
            # calls of one-expression helpers inside the expressions of this statement (headers of compound statements included)
            for fld, val in list(ast.iter_fields(s)):
                if isinstance(val, ast.expr):
                    setattr(s, fld, _ExprInline(model, f, counter, depth).visit(val))
                elif isinstance(val, list) and val and isinstance(val[0], ast.expr):
                    setattr(s, fld, [_ExprInline(model, f, counter, depth).visit(v) for v in val])
        for fld in ("body", "orelse", "finalbody"):
            b = getattr(s, fld, None)
            if isinstance(b, list) and b and isinstance(b[0], ast.stmt):
                setattr(s, fld, _inline_block(model, f, b, depth, counter))
        if isinstance(s, ast.Try):
            for h in s.handlers:
                h.body = _inline_block(model, f, h.body, depth, counter)
        done = False
        if depth > 0:
            if isinstance(s, ast.Expr) and isinstance(s.value, ast.Call):
                ex = _expand(model, f, s.value, counter)
                if ex is not None:
                    g, pro, body = ex
                    rets = _returns(g)
                    # void helper without an early return: a trailing bare `return` is dropped
                    trailing = [r for r in rets if r is g.node.body[-1]]
                    if all(r.value is None or (isinstance(r.value, ast.Constant) and r.value.value is None) for r in rets) and len(rets) == len(trailing):
                        if isinstance(body[-1], ast.Return):
                            body = body[:-1] or [ast.copy_location(ast.Pass(), s)]
                        out += pro + _inline_block(model, f, body, depth - 1, counter)
                        done = True
                    elif all(r.value is None or (isinstance(r.value, ast.Constant) and r.value.value is None) for r in rets):
                        # guard-clause style: the early returns become nested branches
                        flat = _without_early_returns(body)
                        if flat is not None:
                            out += pro + _inline_block(model, f, flat or [ast.copy_location(ast.Pass(), s)], depth - 1, counter)
                            done = True
            elif isinstance(s, ast.Assign) and isinstance(s.value, ast.Call):
                ex = _expand(model, f, s.value, counter)
                if ex is not None:
                    g, pro, body = ex
                    rets = _returns(g)
                    # value helper: a single `return <expr>` as its last statement
                    if len(rets) > 1 and _tail_returns(g.node.body) == len(rets) and all(r.value is not None for r in rets):
                        # every return ends a branch of a tail if/elif/else chain (the other branches raise): `x = <expr>` in its place
                        inner = _returns_to_assign(body, s.targets, s)
                        out += pro + _inline_block(model, f, inner, depth - 1, counter)
                        done = True
                    elif len(rets) > 1 and all(r.value is not None for r in rets) and _always_leaves(body) \
                            and _without_early_returns(copy.deepcopy(body), (), s.targets) is not None:
                        # guard-clause style value helper (`if c: return X` ... `return Y`, other paths raise): nested branches that store the value
                        flat = _without_early_returns(body, (), s.targets)
                        out += pro + _inline_block(model, f, flat, depth - 1, counter)
                        done = True
                    elif len(rets) == 1 and rets[0] is g.node.body[-1] and rets[0].value is not None and isinstance(body[-1], ast.Return):
                        inner, rv = body[:-1], body[-1].value
                        # a returned callee local takes the caller's target name when that name does not occur in the inlined body
                        if len(s.targets) == 1:
                            t0 = s.targets[0]
                            pairs = [(t0, rv)] if isinstance(t0, ast.Name) and isinstance(rv, ast.Name) else \
                                (list(zip(t0.elts, rv.elts)) if isinstance(t0, ast.Tuple) and isinstance(rv, ast.Tuple) and len(t0.elts) == len(rv.elts) else [])
                            used = {n.id for st in pro + inner for n in ast.walk(st) if isinstance(n, ast.Name)}
                            ren = {}
                            for t, r in pairs:
                                if isinstance(t, ast.Name) and isinstance(r, ast.Name) and "__i" in r.id and t.id not in used and r.id not in ren \
                                        and t.id not in ren.values():
                                    ren[r.id] = t.id
                            if ren:
                                inner = [_Rename(ren).visit(st) for st in inner]
                                rv = _Rename(ren).visit(rv)
                        trivial = ast.dump(rv) == ast.dump(_as_load(s.targets[0])) if len(s.targets) == 1 else False
                        out += pro + _inline_block(model, f, inner, depth - 1, counter)
                        if not trivial:
                            last = ast.copy_location(ast.Assign(targets=s.targets, value=rv), s)
                            ast.fix_missing_locations(last)
                            out.append(last)
                        done = True
            elif isinstance(s, ast.Return) and isinstance(s.value, ast.Call):
                ex = _expand(model, f, s.value, counter)
                if ex is not None:
                    g, pro, body = ex
                    # tail position: the callee's returns are the caller's; falling off the end returns None
                    out += pro + _inline_block(model, f, body, depth - 1, counter)
                    if not isinstance(body[-1], (ast.Return, ast.Raise)):
                        out.append(ast.copy_location(ast.Return(value=None), s))
                    done = True
        if not done:
            out.append(s)
    return out


_QUIET = {"tn", "torch", "np", "numpy", "math", "len", "int", "float", "abs", "min", "max"}


def _linear_in_params(expr, params) -> bool:
    """every parameter occurs exactly once in the returned expression, in parameter order, and whatever else the expression calls are numeric
    library functions: arguments with calls in them may then be put in place - each is still evaluated once, in the same order"""
    occ = [x.id for x in ast.walk(expr) if isinstance(x, ast.Name) and x.id in params]
    order = []

    def go(n):
        if isinstance(n, ast.Name) and n.id in params:
            order.append(n.id)
        for c in ast.iter_child_nodes(n):
            go(c)
    go(expr)
    if sorted(occ) != sorted(params) or order != list(params):
        return False
    for c in ast.walk(expr):
        if isinstance(c, ast.Call):
            r = c.func
            while isinstance(r, ast.Attribute):
                r = r.value
            if not (isinstance(r, ast.Name) and r.id in _QUIET):
                return False
        if isinstance(c, (ast.Lambda, ast.ListComp, ast.GeneratorExp, ast.SetComp, ast.DictComp, ast.IfExp, ast.BoolOp)):
            return False
    return True


def _inline_local_closures(node, counter):
    """`def one(*size): return tn.ones(size, dtype=dtype, device=device)` defined in the function's own body and called in it: each call
    is replaced by the returned expression with the arguments put in.  A closure reads its free variables when it is *called*, so the
    expression evaluated at the call site is the same computation.  Conditions: defined once at the top level of the body, never re-bound
    or passed around (every use is a call), one `return <expr>`, no decorator / default / keyword use, arguments free of calls."""
    cands = {}
    nested = [st for st in ast.walk(node) if isinstance(st, ast.FunctionDef) and st is not node]
    inner_defs = {id(x) for st in nested for x in ast.walk(st) if x is not st and isinstance(x, ast.FunctionDef)}
    for st in nested:
        # (anywhere in the function's own blocks - an inlined helper brings its local helpers along -, but not inside another local function)
        if id(st) not in inner_defs and not st.decorator_list and not st.args.defaults and not st.args.kwonlyargs and not st.args.kwarg:
            body = [x for x in st.body if not (isinstance(x, ast.Expr) and isinstance(x.value, ast.Constant) and isinstance(x.value.value, str))]
            if len(body) == 1 and isinstance(body[0], ast.Return) and body[0].value is not None:
                cands[st.name] = (st, body[0].value)
    if not cands:
        return
    stores = {}
    for n in ast.walk(node):
        if isinstance(n, ast.Name) and isinstance(n.ctx, (ast.Store, ast.Del)):
            stores[n.id] = stores.get(n.id, 0) + 1
        if isinstance(n, ast.FunctionDef) and n is not node:
            stores[n.name] = stores.get(n.name, 0) + 1
    calls = {id(c.func) for c in ast.walk(node) if isinstance(c, ast.Call) and isinstance(c.func, ast.Name)}
    for nm in list(cands):
        st, expr = cands[nm]
        loads = [n for n in ast.walk(node) if isinstance(n, ast.Name) and n.id == nm and isinstance(n.ctx, ast.Load)]
        own = {id(x) for x in ast.walk(st)}
        if stores.get(nm) != 1 or any(id(n) not in calls for n in loads) or any(id(n) in own for n in loads):
            del cands[nm]
    if not cands:
        return
    done = set()

    class R(ast.NodeTransformer):
        def visit_Call(s, n):
            s.generic_visit(n)
            if isinstance(n.func, ast.Name) and n.func.id in cands:
                st, expr = cands[n.func.id]
                pos = [a.arg for a in st.args.posonlyargs + st.args.args]
                if n.keywords or any(isinstance(a, ast.Starred) for a in n.args):
                    return n
                if len(n.args) < len(pos) or (len(n.args) > len(pos) and st.args.vararg is None):
                    return n
                if not all(_pure_arg(a) for a in n.args) and not _linear_in_params(expr, pos):
                    return n
                bind = dict(zip(pos, n.args))
                if st.args.vararg is not None:
                    bind[st.args.vararg.arg] = ast.Tuple(elts=list(n.args[len(pos):]), ctx=ast.Load())
                inner = {x.id for x in ast.walk(expr) if isinstance(x, ast.Name) and isinstance(x.ctx, ast.Store)}
                if inner & {x.id for a in bind.values() for x in ast.walk(a) if isinstance(x, ast.Name)}:
                    return n
                counter[0] += 1
                done.add(n.func.id)
                return ast.copy_location(_Rename(bind).visit(copy.deepcopy(expr)), n)
            return n

        def visit_FunctionDef(s, n):
            return n if n.name in cands else s.generic_visit(n)
    for _ in range(3):           # a local helper may call another one
        before = counter[0]
        node.body = [R().visit(st) for st in node.body]
        for nm in list(cands):
            st, expr = cands[nm]
            body = [x for x in st.body if not (isinstance(x, ast.Expr) and isinstance(x.value, ast.Constant) and isinstance(x.value.value, str))]
            new_expr = R().visit(copy.deepcopy(body[0].value))
            cands[nm] = (st, new_expr)
        if counter[0] == before:
            break
    left = {n.id for n in ast.walk(node) if isinstance(n, ast.Name) and isinstance(n.ctx, ast.Load)
            and not any(n in set(ast.walk(st)) for st, _ in cands.values())}

    class Drop(ast.NodeTransformer):
        def visit_FunctionDef(s, n):
            if n is not node and n.name in done and n.name not in left:
                return None
            return s.generic_visit(n)
    Drop().visit(node)
    for blk in ast.walk(node):
        for fld in ("body", "orelse", "finalbody"):
            if isinstance(getattr(blk, fld, None), list) and fld == "body" and not getattr(blk, fld) and isinstance(blk, (ast.FunctionDef, ast.For, ast.While, ast.If, ast.With)):
                setattr(blk, fld, [ast.Pass()])


def _unroll_display_loops(node):
    """`for x in (a, b): B` over a display of at most four call-free elements, where B neither assigns x nor leaves the loop with break /
    continue: B with x = a, then B with x = b (what an inlined `*operands` helper leaves behind)"""
    class U(ast.NodeTransformer):
        def visit_For(s, n):
            s.generic_visit(n)
            if isinstance(n.iter, (ast.Tuple, ast.List)) and len(n.iter.elts) <= 4 and isinstance(n.target, ast.Name) and not n.orelse \
                    and all(_pure_arg(e) for e in n.iter.elts) \
                    and not any(isinstance(x, (ast.Break, ast.Continue)) for b in n.body for x in ast.walk(b)) \
                    and not any(isinstance(x, ast.Name) and x.id == n.target.id and isinstance(x.ctx, (ast.Store, ast.Del)) for b in n.body for x in ast.walk(b)):
                out = []
                for e in n.iter.elts:
                    out += [_Rename({n.target.id: e}).visit(copy.deepcopy(b)) for b in n.body]
                return out or [ast.copy_location(ast.Pass(), n)]
            return n
    U().visit(node)
    ast.fix_missing_locations(node)


def inlined(model: Model, f: Func, depth: int = 2) -> Func:
    """`f` with void / tail calls of private same-module helpers replaced by their bodies (a copy; `f` itself is untouched)"""
    cache = model.__dict__.setdefault("_inline_cache", {})
    key = (f.qual, depth)
    if key not in cache:
        node = copy.deepcopy(f.node)
        counter = [0]
        _inline_local_closures(node, counter)
        node.body = _inline_block(model, f, node.body, depth, counter)
        _inline_local_closures(node, counter)        # the local helpers of inlined helpers
        if counter[0]:
            _unroll_display_loops(node)
        if counter[0] == 0:
            cache[key] = f
        else:
            ast.fix_missing_locations(node)
            cache[key] = dataclasses.replace(f, node=node)
    return cache[key]
