"""E7 self-test harness (filled in later)."""
def run(pids, jobs=16, reduced=False):
    return 0
