"""E7 - self-test harness: checks the checker in both directions.

Every entry of ttsa/mutants/<pid>.py is a textual edit of a scratch copy of the repository's package:
  breaking edits must make the property check exit 1 with a VIOLATION that mentions the expected rule/instance;
  benign edits must leave it at exit 0.
Scratch copies live in a fresh temporary directory (outside /repo and /verif) and are removed afterwards.
A self-test failure is an analysis error (exit 2), never a property verdict.
"""
from __future__ import annotations

import importlib
import os
import shutil
import subprocess
import sys
import tempfile
from concurrent.futures import ThreadPoolExecutor

VERIF = os.path.dirname(os.path.dirname(os.path.abspath(__file__)))
ALL = [f"C{n:02d}" for n in range(1, 21)]


def load(pid):
    try:
        mod = importlib.import_module(f"ttsa.mutants.{pid.lower()}")
    except ImportError:
        return []
    return list(getattr(mod, "MUTANTS", []))


def apply_edit(root, m):
    path = os.path.join(root, m["file"])
    with open(path, encoding="utf-8") as f:
        src = f.read()
    cnt = src.count(m["old"])
    want = m.get("count", 1)
    if cnt < 1 or (want != "all" and cnt != want):
        return f"edit does not apply: {cnt} occurrence(s) of the anchor text (expected {want})"
    src = src.replace(m["old"], m["new"]) if want == "all" or want == cnt else src
    with open(path, "w", encoding="utf-8") as f:
        f.write(src)
    if not path.endswith(".py"):
        return None
    try:
        import warnings
        with warnings.catch_warnings():
            warnings.simplefilter("ignore")
            compile(src, path, "exec")
    except SyntaxError as e:
        return f"edited file does not compile: {e}"
    return None


def run_one(pid, m, repo):
    tmp = tempfile.mkdtemp(prefix="ttsa_selftest_")
    try:
        for sub in ("torchtt", "cpp"):
            if os.path.isdir(os.path.join(repo, sub)):
                shutil.copytree(os.path.join(repo, sub), os.path.join(tmp, sub),
                                ignore=shutil.ignore_patterns("__pycache__"))
        if m.get("idiom"):
            from .idioms import rewrite_tree
            rewrite_tree(os.path.join(tmp, "torchtt"), m["idiom"])
        elif m.get("alpha"):
            from .alpha import rename_tree, rename_params
            if m.get("params"):
                rename_params(os.path.join(tmp, "torchtt"), m["alpha"])
            else:
                rename_tree(os.path.join(tmp, "torchtt"), m["alpha"])
        elif "patch" in m:
            p0 = subprocess.run(["git", "apply", "--unsafe-paths", f"--directory={tmp}", m["patch"]], cwd="/", capture_output=True, text=True)
            if p0.returncode != 0:
                p0 = subprocess.run(["git", "apply", m["patch"]], cwd=tmp, capture_output=True, text=True)
            if p0.returncode != 0:
                return m, "stale", "patch does not apply: " + (p0.stderr or "")[:200].replace("\n", " | ")
        else:
            edits = m["edits"] if "edits" in m else [m]
            for ed in edits:
                err = apply_edit(tmp, ed)
                if err:
                    return m, "stale", err
        env = dict(os.environ, TTSA_REPO=tmp, TTSA_EVIDENCE_DIR=os.path.join(tmp, "_ev"), PYTHONPATH=VERIF)
        env.pop("VERIF_TIER", None)
        p = subprocess.run([sys.executable, "-m", "ttsa", "check", pid, "--tier", "quick"], cwd=VERIF, env=env,
                           capture_output=True, text=True, timeout=600)
        out = p.stdout + p.stderr
        expect = m.get("expect", "violation")
        if expect == "any":
            return m, ("ok" if p.returncode in (1, 2) else "fail"), f"expected exit 1 or 2, got {p.returncode}"
        if expect == "violation":
            if p.returncode != 1 or "VIOLATION property=" not in out:
                return m, "fail", f"expected a violation, got exit {p.returncode}: " + out[-400:].replace("\n", " | ")
            mention = m.get("mention")
            if mention and mention not in out:
                return m, "fail", f"violation reported but does not name `{mention}`: " + out[-600:].replace("\n", " | ")
            return m, "ok", ""
        if expect == "error":
            if p.returncode != 2:
                return m, "fail", f"expected exit 2, got {p.returncode}"
            return m, "ok", ""
        if p.returncode != 0:
            return m, "fail", f"benign edit must stay clean, got exit {p.returncode}: " + out[-600:].replace("\n", " | ")
        return m, "ok", ""
    except subprocess.TimeoutExpired:
        return m, "fail", "timeout"
    finally:
        shutil.rmtree(tmp, ignore_errors=True)


def load_seeds(pid):
    """confirmed seeded changes (sub-agent campaign) with the verdict recorded for this property"""
    import json
    out = []
    root = os.path.join(VERIF, "seeded")
    if not os.path.isdir(root):
        return out
    for d in sorted(os.listdir(root)):
        mp = os.path.join(root, d, "meta.json")
        if not os.path.exists(mp):
            continue
        try:
            meta = json.load(open(mp))
        except ValueError:
            continue
        sc = meta.get("static_checks", {})
        if pid in sc.get("violation_reported_by", []):
            out.append(dict(name=f"seed:{d}", patch=os.path.join(root, d, "patch.diff"), expect="violation"))
        elif pid in [x for k, v in sc.items() if k.startswith("analysis_error_only") for x in v]:
            out.append(dict(name=f"seed:{d}", patch=os.path.join(root, d, "patch.diff"), expect="error"))
        elif meta.get("property") == pid:
            out.append(dict(name=f"seed:{d}", patch=os.path.join(root, d, "patch.diff"), expect="clean"))     # recorded miss: must at least not crash
    return out


def load_benign(pid):
    """behaviour-preserving refactorings written by sub-agents (suite and differential digests identical): every check whose
    property is anchored in a touched file must stay clean (recorded exception: the rank_chop reformulation is answered with exit 2)"""
    import json
    import re
    out = []
    root = os.path.join(VERIF, "benign")
    if not os.path.isdir(root):
        return out
    files = set()
    try:
        for line in open(os.path.join(VERIF, "properties.jsonl")):
            p = json.loads(line)
            if p["id"] == pid:
                files = set(p["anchors"]["files"])
    except (OSError, ValueError, KeyError):
        return out
    try:
        expected = json.load(open(os.path.join(root, "EXPECTED.json")))
    except (OSError, ValueError):
        expected = {}
    for d in sorted(os.listdir(root)):
        pp = os.path.join(root, d, "patch.diff")
        if not os.path.exists(pp):
            continue
        touched = set(re.findall(r"^\+\+\+ b/(\S+)", open(pp).read(), re.M))
        if not (touched & files):
            continue
        expect = expected.get(d, {}).get(pid, "clean")
        out.append(dict(name=f"benign:{d}", patch=pp, expect=expect))
    return out


def run(pids, jobs=16, reduced=False):
    repo = os.environ.get("TTSA_REPO", "/repo")
    pids = pids or ALL
    work = []
    for pid in pids:
        if not os.path.exists(os.path.join(VERIF, "ttsa", "props", pid.lower() + ".py")):
            continue          # no check registered for this property (not applicable)
        ms = load(pid)
        if reduced:
            ms = [m for m in ms if m.get("reduced")] or ms[:2]
        else:
            ms = ms + load_seeds(pid) + load_benign(pid)
        if ms and not reduced:
            ms = ms + [dict(name="alpha-rename-all-locals", alpha="_r", expect="clean"),
                       dict(name="alpha-rename-private-and-dunder-parameters", alpha="_p", params=True, expect="clean")]
            from .idioms import REWRITES
            ms = ms + [dict(name=f"idiom-rewrite:{w}", idiom=w, expect="clean") for w in REWRITES]
        work += [(pid, m) for m in ms]
    if not work:
        print("[ttsa selftest] no mutants registered for", ",".join(pids))
        return 0
    bad = 0
    stale = 0
    with ThreadPoolExecutor(max_workers=max(1, jobs)) as ex:
        futs = [ex.submit(run_one, pid, m, repo) for pid, m in work]
        for (pid, _), fu in zip(work, futs):
            m, status, msg = fu.result()
            name = m.get("name", m.get("old", "?")[:40])
            if status == "ok":
                continue
            if status == "stale":
                stale += 1
                print(f"[ttsa selftest] {pid} {name}: STALE ({msg})")
            else:
                bad += 1
                print(f"[ttsa selftest] {pid} {name}: FAIL {msg}")
    print(f"[ttsa selftest] {len(work)} edits over {len(pids)} properties: {len(work) - bad - stale} ok, {bad} failed, {stale} stale")
    return 2 if bad else 0
