"""Static view of the installed third-party namespaces (torch, numpy, opt_einsum, stdlib modules).

Answers "does `torch.reduce_sum` exist?" by reading the installed package's source files and type stubs
instead of importing torch (9-12 s in this sandbox). A name reported missing by the static view is
re-confirmed by a real import before it is reported, so the static view can only err on the quiet side.
"""
from __future__ import annotations

import ast
import importlib
import importlib.util
import os
import re
import sys

_names_cache: dict[str, set | None] = {}
_confirm_cache: dict[str, bool | None] = {}

STDLIB = {"math", "sys", "datetime", "warnings", "os", "itertools", "functools"}
THIRD = {"torch", "numpy", "opt_einsum"}


def _find(modname: str):
    """Path of module source (py / pyi / package __init__) without importing it."""
    parts = modname.split(".")
    for base in sys.path:
        if not base or not os.path.isdir(base):
            continue
        p = os.path.join(base, *parts)
        if os.path.isdir(p):
            for init in ("__init__.py", "__init__.pyi"):
                if os.path.isfile(os.path.join(p, init)):
                    return os.path.join(p, init), True
        for ext in (".py", ".pyi"):
            if os.path.isfile(p + ext):
                return p + ext, False
    return None, False


_DEF = re.compile(r"^(?:def|class)\s+(\w+)|^(\w+)\s*(?::[^=\n]+)?=", re.M)


def module_names(modname: str, depth=0) -> set | None:
    """Top-level names of a third-party module, computed statically. None = unknown."""
    if modname in _names_cache:
        return _names_cache[modname]
    _names_cache[modname] = None
    path, is_pkg = _find(modname)
    if path is None:
        return None
    try:
        with open(path, encoding="utf-8", errors="replace") as f:
            src = f.read()
    except OSError:
        return None
    names: set = set()
    dynamic = False
    if len(src) > 400_000:   # huge stub: regex scan
        for mm in _DEF.finditer(src):
            names.add(mm.group(1) or mm.group(2))
    else:
        try:
            tree = ast.parse(src)
        except SyntaxError:
            return None
        pkg = modname if is_pkg else modname.rsplit(".", 1)[0]

        def scan(stmts):
            nonlocal dynamic
            for n in stmts:
                if isinstance(n, (ast.FunctionDef, ast.AsyncFunctionDef, ast.ClassDef)):
                    names.add(n.name)
                elif isinstance(n, (ast.Assign, ast.AnnAssign, ast.AugAssign)):
                    tg = n.targets if isinstance(n, ast.Assign) else [n.target]
                    for t in tg:
                        for x in ast.walk(t):
                            if isinstance(x, ast.Name):
                                names.add(x.id)
                elif isinstance(n, ast.Import):
                    for a in n.names:
                        names.add((a.asname or a.name).split(".")[0])
                elif isinstance(n, ast.ImportFrom):
                    base = n.module or ""
                    if n.level:
                        b = pkg.split(".")
                        if n.level > 1:
                            b = b[: len(b) - (n.level - 1)]
                        base = ".".join(b + ([n.module] if n.module else []))
                    for a in n.names:
                        if a.name == "*":
                            if depth < 4:
                                sub = module_names(base, depth + 1)
                                if sub is None:
                                    dynamic = True
                                else:
                                    names.update(x for x in sub if not x.startswith("_"))
                            else:
                                dynamic = True
                        else:
                            names.add(a.asname or a.name)
                elif isinstance(n, (ast.If, ast.Try, ast.With, ast.For, ast.While)):
                    for fld in ("body", "orelse", "finalbody"):
                        scan(getattr(n, fld, []) or [])
                    for h in getattr(n, "handlers", []) or []:
                        scan(h.body)
                    if isinstance(n, ast.For):
                        # `for name in dir(X): globals()[name] = ...` style population
                        dynamic = dynamic or any(isinstance(x, ast.Call) and isinstance(x.func, ast.Name)
                                                 and x.func.id == "globals" for x in ast.walk(n))
        scan(tree.body)
    # submodules of packages count as attributes once imported; accept them
    if is_pkg:
        d = os.path.dirname(path)
        try:
            for e in os.listdir(d):
                if e.endswith((".py", ".pyi", ".so")):
                    names.add(e.split(".")[0])
                elif os.path.isdir(os.path.join(d, e)) and not e.startswith("_" * 3):
                    names.add(e)
        except OSError:
            pass
    if modname == "torch":
        # torch/__init__.py copies dir(torch._C._VariableFunctions) into the namespace
        for stub in ("torch._C._VariableFunctions", "torch._C"):
            sub = module_names(stub, depth + 1)
            if sub:
                names.update(sub)
        dynamic = False
    if modname.startswith("numpy") and dynamic:
        _names_cache[modname] = None
        return None
    _names_cache[modname] = names
    return names


def static_has(dotted: str) -> bool | None:
    """True/False when decidable from the installed sources, None otherwise."""
    parts = dotted.split(".")
    if parts[0] not in THIRD and parts[0] not in STDLIB:
        return None
    if parts[0] in STDLIB:
        return None
    # longest module prefix
    for k in range(len(parts), 0, -1):
        modname = ".".join(parts[:k])
        path, _ = _find(modname)
        if path is not None:
            if k == len(parts):
                return True
            if k < len(parts) - 1:
                return None       # attribute of an object inside the module: not decided statically
            names = module_names(modname)
            if names is None:
                return None
            return parts[k] in names
    return None


def confirmed_missing(dotted: str) -> bool:
    """Slow path, used only for a name the static view reports missing: import and look."""
    if dotted in _confirm_cache:
        return bool(_confirm_cache[dotted])
    parts = dotted.split(".")
    try:
        obj = importlib.import_module(parts[0])
        for i, p in enumerate(parts[1:], 1):
            if hasattr(obj, p):
                obj = getattr(obj, p)
            else:
                try:
                    obj = importlib.import_module(".".join(parts[: i + 1]))
                except Exception:
                    _confirm_cache[dotted] = True
                    return True
        _confirm_cache[dotted] = False
        return False
    except Exception:
        _confirm_cache[dotted] = None
        return False


def version(top: str) -> str:
    try:
        from importlib.metadata import version as v
        return v(top)
    except Exception:
        return "?"
