"""CLI: python -m ttsa check <Cxx> [--tier quick|thorough] | replay <path> | selftest [...]"""
from __future__ import annotations

import argparse
import importlib
import json
import os
import sys
import time
import traceback

from . import report
from .report import AnalysisError


def run_check(pid: str, tier: str) -> int:
    t0 = time.time()
    obs, errors, meta = [], [], {}
    try:
        mod = importlib.import_module(f"ttsa.props.{pid.lower()}")
        from .model import Model
        model = Model()
        meta = dict(getattr(mod, "META", {}))
        meta["units"] = model.units()
        meta["renamed_helpers"] = dict(getattr(model, "renamed", {}))
        for anchor in getattr(mod, "ANCHORS", []):
            model.func(anchor)  # raises AnalysisError when vanished
        res = mod.check(model, tier)
        if isinstance(res, tuple):
            obs, extra = res
            meta.update(extra or {})
        else:
            obs = res
    except AnalysisError as e:
        errors.append(f"{e}")
    except Exception as e:  # any crash of the checker is "don't know", never a verdict
        tb = traceback.format_exc().strip().splitlines()
        errors.append(f"checker crashed: {type(e).__name__}: {e} @ {tb[-3].strip() if len(tb) >= 3 else ''}")
        if os.environ.get("TTSA_DEBUG"):
            traceback.print_exc()
    return report.finish(pid, tier, obs, meta, t0, errors)


def run_replay(path: str) -> int:
    with open(path) as f:
        rec = json.load(f)
    pid = rec["property"]
    mod = importlib.import_module(f"ttsa.props.{pid.lower()}")
    from .model import Model
    model = Model()
    res = mod.check(model, "quick")
    obs = res[0] if isinstance(res, tuple) else res
    hit = [o for o in obs if o.key == rec["key"]]
    print(f"replay property={pid} key={rec['key']}")
    if not hit:
        print("  obligation no longer present on the current tree (construct changed or removed)")
        return 0
    for o in hit:
        print(f"  status={o.status} rule={o.rule} at {o.where}")
        print(f"  construct: {o.construct}")
        print(f"  {o.detail}")
    return 1 if any(o.status == report.VIOLATED for o in hit) else 0


def main(argv=None):
    import sys
    import threading
    sys.setrecursionlimit(20000)      # interprocedural summaries nest one analysis per call level
    ap = argparse.ArgumentParser(prog="ttsa")
    sub = ap.add_subparsers(dest="cmd", required=True)
    c = sub.add_parser("check")
    c.add_argument("pid")
    c.add_argument("--tier", default=os.environ.get("VERIF_TIER", "quick"))
    r = sub.add_parser("replay")
    r.add_argument("path")
    s = sub.add_parser("selftest")
    s.add_argument("pids", nargs="*")
    s.add_argument("--jobs", type=int, default=16)
    s.add_argument("--reduced", action="store_true")
    a = ap.parse_args(argv)
    if a.cmd == "check":
        tier = a.tier if a.tier in ("quick", "thorough") else "quick"
        code = run_check(a.pid.upper(), tier)
        if tier == "thorough" and code == 0:
            from . import selftest
            st = selftest.run([a.pid.upper()], jobs=16, reduced=False)
            if st != 0:
                print(f"ANALYSIS-ERROR property={a.pid.upper()} selftest failed")
                code = 2
        return code
    if a.cmd == "replay":
        return run_replay(a.path)
    if a.cmd == "selftest":
        from . import selftest
        return selftest.run([p.upper() for p in a.pids], jobs=a.jobs, reduced=a.reduced)
    return 2


def _main_in_big_stack():
    """main() on a thread with a 512 MB stack: the interprocedural analyses recurse once per call level of the analysed code"""
    import threading
    box = {}

    def run():
        try:
            box["rc"] = main()
        except SystemExit as e:
            box["exit"] = e
        except BaseException as e:  # noqa
            box["err"] = e
    threading.stack_size(512 * 1024 * 1024)
    t = threading.Thread(target=run)
    t.start()
    t.join()
    if "exit" in box:
        raise box["exit"]
    if "err" in box:
        raise box["err"]
    return box.get("rc", 2)


if __name__ == "__main__":
    try:
        rc = _main_in_big_stack()
    except SystemExit:
        raise
    except BaseException as e:  # noqa
        try:
            print(f"ANALYSIS-ERROR ttsa crashed: {type(e).__name__}: {e}")
        except BrokenPipeError:
            pass
        rc = 2
    try:
        sys.stdout.flush()
    except BrokenPipeError:
        pass
    os._exit(rc)
