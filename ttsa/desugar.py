"""Newer surface syntax is rewritten into the older spelling of the same program when a module is loaded, before any rule sees it.

Every rewrite is an exact equivalence of Python semantics under the side condition stated with it; where the condition cannot be
established the construct is left alone (and whatever consumes it later reports "outside the modelled fragment", never a verdict).

  match s: case P1: A  case P2: B ...      ->  if T1: A elif T2: B ...       patterns: literal, None/True/False, wildcard, capture,
                                                                               alternatives, class pattern without sub-patterns,
                                                                               fixed-length sequence against a tuple display,
                                                                               sequence (with at most one star wildcard) against a value
  [a, *X, b]  /  (a, *X, b)  (loads)       ->  [a] + list(X) + [b]            (list(X) is X itself when X is visibly a list)
  a < b <= c                               ->  a < b and b <= c               (b free of calls)
  isinstance(x, A | B)                     ->  isinstance(x, (A, B))
  zip(..., strict=False)                   ->  zip(...)
  f = lambda args: E                       ->  def f(args): return E
  <stmt using (x := E) first>              ->  x = E ; <stmt using x>         (the walrus is the first thing the statement evaluates)
  for ..: B  else: C                       ->  for ..: B ; C                  (loops without a break of their own)
  list(<generator>) / tuple(<list comp>)   ->  the comprehension display
  t = reduce(lambda a, x: E, XS, init)     ->  t = init ; for x' in XS: t = E[a := t, x := x']      (statement level, plain init or plain XS)
"""
from __future__ import annotations

import ast
import copy

SEQ_TEST = "_ttsa_is_sequence"      # isinstance(x, collections.abc.Sequence) and not str/bytes: what a sequence pattern tests first


def _call_free(e):
    return not any(isinstance(x, (ast.Call, ast.NamedExpr, ast.Await, ast.Yield, ast.YieldFrom, ast.Lambda, ast.ListComp, ast.SetComp,
                                  ast.DictComp, ast.GeneratorExp)) for x in ast.walk(e))


def _loc(new, old):
    return ast.copy_location(new, old)


def _name(id_, ctx=None):
    return ast.Name(id=id_, ctx=ctx or ast.Load())


class Unsupported(Exception):
    pass


# ------------------------------------------------------------------------------------------------ match

def _pattern(p, subj):
    """(test expression or None for 'always', [(name, value expr)] bindings)"""
    if isinstance(p, ast.MatchValue):
        return ast.Compare(left=copy.deepcopy(subj), ops=[ast.Eq()], comparators=[p.value]), []
    if isinstance(p, ast.MatchSingleton):
        return ast.Compare(left=copy.deepcopy(subj), ops=[ast.Is()], comparators=[ast.Constant(value=p.value)]), []
    if isinstance(p, ast.MatchAs):
        if p.pattern is None:
            return None, ([(p.name, copy.deepcopy(subj))] if p.name else [])
        t, b = _pattern(p.pattern, subj)
        return t, b + ([(p.name, copy.deepcopy(subj))] if p.name else [])
    if isinstance(p, ast.MatchOr):
        tests = []
        for q in p.patterns:
            t, b = _pattern(q, subj)
            if b:
                raise Unsupported("bindings inside alternatives")
            if t is None:
                return None, []
            tests.append(t)
        return ast.BoolOp(op=ast.Or(), values=tests), []
    if isinstance(p, ast.MatchClass):
        if p.patterns or p.kwd_patterns:
            raise Unsupported("class pattern with sub-patterns")
        return ast.Call(func=_name("isinstance"), args=[copy.deepcopy(subj), p.cls], keywords=[]), []
    if isinstance(p, ast.MatchSequence):
        stars = [i for i, q in enumerate(p.patterns) if isinstance(q, ast.MatchStar)]
        if len(stars) > 1 or any(p.patterns[i].name for i in stars):
            raise Unsupported("starred capture in a sequence pattern")
        n = len(p.patterns)
        tests, binds = [], []
        if isinstance(subj, ast.Tuple) and not any(isinstance(e, ast.Starred) for e in subj.elts):
            # a tuple display is a sequence of known length: element-wise
            if stars:
                raise Unsupported("star against a display")
            if len(subj.elts) != n:
                return ast.Constant(value=False), []
            for q, e in zip(p.patterns, subj.elts):
                t, b = _pattern(q, e)
                binds += b
                if t is not None:
                    tests.append(t)
            if not tests:
                return None, binds
            return (tests[0] if len(tests) == 1 else ast.BoolOp(op=ast.And(), values=tests)), binds
        tests.append(ast.Call(func=_name(SEQ_TEST), args=[copy.deepcopy(subj)], keywords=[]))
        ln = ast.Call(func=_name("len"), args=[copy.deepcopy(subj)], keywords=[])
        if stars:
            if n - 1 > 0:
                tests.append(ast.Compare(left=ln, ops=[ast.GtE()], comparators=[ast.Constant(value=n - 1)]))
        else:
            tests.append(ast.Compare(left=ln, ops=[ast.Eq()], comparators=[ast.Constant(value=n)]))
        for i, q in enumerate(p.patterns):
            if isinstance(q, ast.MatchStar):
                continue
            idx = i if not stars or i < stars[0] else i - n
            el = ast.Subscript(value=copy.deepcopy(subj), slice=ast.Constant(value=idx) if idx >= 0 else ast.UnaryOp(op=ast.USub(), operand=ast.Constant(value=-idx)),
                               ctx=ast.Load())
            t, b = _pattern(q, el)
            binds += b
            if t is not None:
                tests.append(t)
        return (tests[0] if len(tests) == 1 else ast.BoolOp(op=ast.And(), values=tests)), binds
    raise Unsupported(type(p).__name__)


def _subject_ok(s):
    if isinstance(s, ast.Tuple):
        return all(_call_free(e) or (isinstance(e, ast.Call) and isinstance(e.func, ast.Name) and e.func.id == "len" and _call_free(e.args[0]) if isinstance(e, ast.Call) and e.args else _call_free(e))
                   for e in s.elts)
    return _call_free(s)


def _match_to_if(node: ast.Match):
    pre = []
    subj = node.subject
    if not _subject_ok(subj):
        tmp = f"_ttsa_subject_{node.lineno}"
        pre.append(_loc(ast.Assign(targets=[_name(tmp, ast.Store())], value=subj), node))
        subj = _name(tmp)
    arms = []
    for c in node.cases:
        t, binds = _pattern(c.pattern, subj)
        if binds and c.guard is not None:
            raise Unsupported("guard over captured names")
        body = [_loc(ast.Assign(targets=[_name(nm, ast.Store())], value=v), c.body[0]) for nm, v in binds] + c.body
        if c.guard is not None:
            t = c.guard if t is None else ast.BoolOp(op=ast.And(), values=[t, c.guard])
        arms.append((t, body))
        if t is None:
            break
    # a subject that is re-read by every test must not be changed by the bodies before the next test: only one body runs, fine
    top = None
    cur = None
    for t, body in arms:
        if t is None:
            if cur is None:
                return pre + body
            cur.orelse = body
            break
        nxt = _loc(ast.If(test=t, body=body, orelse=[]), body[0])
        if cur is None:
            top = nxt
        else:
            cur.orelse = [nxt]
        cur = nxt
    return pre + [top]


# ------------------------------------------------------------------------------------------------ walrus

_QUIET_ROOTS = {"int", "float", "len", "abs", "min", "max", "round", "math", "tn", "torch", "np", "numpy"}


def _quiet(e):
    """no call in e can change what an already evaluated plain read has seen (builtins and numeric library functions only)"""
    for c in ast.walk(e):
        if isinstance(c, ast.Call):
            r = c.func
            while isinstance(r, ast.Attribute):
                r = r.value
            if not (isinstance(r, ast.Name) and r.id in _QUIET_ROOTS):
                return False
    return True


def _first_evaluated(root, target):
    """may `target` (a NamedExpr) be evaluated before the rest of `root`?  It is evaluated unconditionally, and whatever `root` evaluates
    before it is a plain read (no call) that does not mention the bound name and that the walrus' own value cannot disturb."""
    name = target.target.id if isinstance(target.target, ast.Name) else None
    earlier = []

    def contains(n):
        return any(x is target for x in ast.walk(n))

    def order(n):
        """children of n in evaluation order, or None when some child is evaluated conditionally / repeatedly"""
        if isinstance(n, ast.NamedExpr):
            return [n.value]
        if isinstance(n, ast.BinOp):
            return [n.left, n.right]
        if isinstance(n, ast.UnaryOp):
            return [n.operand]
        if isinstance(n, ast.Compare):
            return [n.left] + list(n.comparators) if len(n.ops) == 1 else [n.left, n.comparators[0]]
        if isinstance(n, ast.BoolOp):
            return [n.values[0]]
        if isinstance(n, ast.IfExp):
            return [n.test]
        if isinstance(n, ast.Subscript):
            return [n.value, n.slice]
        if isinstance(n, ast.Attribute):
            return [n.value]
        if isinstance(n, (ast.Tuple, ast.List)):
            return list(n.elts)
        if isinstance(n, ast.Starred):
            return [n.value]
        if isinstance(n, ast.Slice):
            return [x for x in (n.lower, n.upper, n.step) if x is not None]
        if isinstance(n, ast.Call):
            return [n.func] + list(n.args) + [k.value for k in n.keywords]
        return None
    n = root
    while n is not target:
        kids = order(n)
        if kids is None:
            return False
        nxt = None
        for k in kids:
            if contains(k):
                nxt = k
                break
            earlier.append(k)
        if nxt is None:
            return False
        n = nxt
    if not earlier:
        return True
    if not all(_call_free(k) for k in earlier) or any(isinstance(x, ast.Name) and x.id == name for k in earlier for x in ast.walk(k)):
        return False
    return _quiet(target.value)


def _hoist_walrus(stmt):
    """[x = E] + stmt' when the statement's header expression evaluates a walrus first, else None"""
    if isinstance(stmt, ast.If):
        slot = "test"
    elif isinstance(stmt, (ast.Assign, ast.Return, ast.Expr, ast.AugAssign)):
        slot = "value"
    else:
        return None
    root = getattr(stmt, slot)
    if root is None:
        return None
    out = []
    while True:
        w = next((x for x in ast.walk(root) if isinstance(x, ast.NamedExpr)), None)
        if w is None or not _first_evaluated(root, w) or not isinstance(w.target, ast.Name):
            break
        out.append(_loc(ast.Assign(targets=[_name(w.target.id, ast.Store())], value=w.value), stmt))
        repl = _loc(_name(w.target.id), w)

        class R(ast.NodeTransformer):
            def visit_NamedExpr(s, n):
                return repl if n is w else s.generic_visit(n)
        root = R().visit(root)
        setattr(stmt, slot, root)
    return out or None


# ------------------------------------------------------------------------------------------------ the pass

def _own_breaks(loop):
    """break statements that leave this loop"""
    out = []

    def rec(stmts):
        for s in stmts:
            if isinstance(s, ast.Break):
                out.append(s)
            elif isinstance(s, (ast.For, ast.While, ast.AsyncFor)):
                rec(s.orelse)
            elif isinstance(s, (ast.FunctionDef, ast.AsyncFunctionDef, ast.ClassDef)):
                continue
            else:
                for f in ("body", "orelse", "finalbody"):
                    rec(getattr(s, f, []) or [])
                for h in getattr(s, "handlers", []) or []:
                    rec(h.body)
                for c in getattr(s, "cases", []) or []:
                    rec(c.body)
    rec(loop.body)
    return out


def _is_list_expr(e):
    if isinstance(e, (ast.List, ast.ListComp)):
        return True
    if isinstance(e, ast.BinOp) and isinstance(e.op, ast.Mult):
        return _is_list_expr(e.left) or _is_list_expr(e.right)
    if isinstance(e, ast.BinOp) and isinstance(e.op, ast.Add):
        return _is_list_expr(e.left) and _is_list_expr(e.right)
    if isinstance(e, ast.Call) and isinstance(e.func, ast.Name) and e.func.id == "list":
        return True
    return False


class Desugar(ast.NodeTransformer):
    # ---- statements (lists of statements are rebuilt so that one statement may become several)
    def _block(self, stmts):
        out = []
        for s in stmts:
            r = self.visit(s)
            if r is None:
                continue
            out.extend(r if isinstance(r, list) else [r])
        return out

    def generic_visit(self, node):
        for f in ("body", "orelse", "finalbody"):
            v = getattr(node, f, None)
            if isinstance(v, list) and v and isinstance(v[0], ast.stmt):
                setattr(node, f, self._block(v))
        for h in getattr(node, "handlers", []) or []:
            h.body = self._block(h.body)
        for c in getattr(node, "cases", []) or []:
            if isinstance(c, ast.match_case):
                c.body = self._block(c.body)
        # expressions
        for field, old in ast.iter_fields(node):
            if field in ("body", "orelse", "finalbody", "handlers", "cases") and isinstance(old, list) and (not old or isinstance(old[0], (ast.stmt, ast.ExceptHandler, ast.match_case))):
                continue
            if isinstance(old, list):
                new = []
                for v in old:
                    if isinstance(v, ast.AST):
                        v = self.visit(v)
                        if v is None:
                            continue
                        if isinstance(v, list):
                            new.extend(v)
                            continue
                    new.append(v)
                old[:] = new
            elif isinstance(old, ast.AST):
                new = self.visit(old)
                if new is None:
                    delattr(node, field)
                else:
                    setattr(node, field, new)
        return node

    def visit_Match(self, node):
        self.generic_visit(node)
        try:
            return [_loc(s, node) if not hasattr(s, "lineno") else s for s in _match_to_if(node)]
        except Unsupported:
            return node

    def _stmt(self, node):
        self.generic_visit(node)
        pre = _hoist_walrus(node)
        return (pre + [node]) if pre else node

    visit_If = visit_Expr = visit_AugAssign = _stmt

    @staticmethod
    def _reduce_parts(call):
        """(lambda, iterable, init) of `reduce(lambda a, x: E, XS, init)` in the rewritable form, else None"""
        f = call.func
        if not ((isinstance(f, ast.Name) and f.id == "reduce") or (isinstance(f, ast.Attribute) and f.attr == "reduce" and isinstance(f.value, ast.Name) and f.value.id == "functools")):
            return None
        if call.keywords or len(call.args) != 3 or not isinstance(call.args[0], ast.Lambda):
            return None
        lam, xs, init = call.args
        a = lam.args
        if len(a.args) != 2 or a.vararg or a.kwarg or a.kwonlyargs or a.defaults or a.posonlyargs:
            return None
        plain = lambda e: all(isinstance(x, (ast.Name, ast.Attribute, ast.Constant, ast.Subscript, ast.Load, ast.Tuple, ast.List, ast.BinOp, ast.UnaryOp, ast.operator,
                                             ast.unaryop, ast.Slice)) for x in ast.walk(e))
        simple_iter = plain(xs) or (isinstance(xs, ast.Call) and isinstance(xs.func, ast.Name) and xs.func.id in ("range", "zip", "enumerate", "reversed")
                                    and all(plain(z) or (isinstance(z, ast.Call) and isinstance(z.func, ast.Name) and z.func.id in ("len", "range") and all(plain(q) or isinstance(q, ast.Call) and isinstance(q.func, ast.Name) and q.func.id == "len" for q in z.args)) for z in xs.args))
        if not (plain(init) or simple_iter):
            return None          # the order in which init and the iterable are evaluated must not matter
        if any(isinstance(x, (ast.Lambda, ast.NamedExpr, ast.ListComp, ast.GeneratorExp, ast.SetComp, ast.DictComp)) for x in ast.walk(lam.body)):
            return None
        return lam, xs, init

    def _reduce_loop(self, target_name, call, at):
        parts = self._reduce_parts(call)
        if parts is None:
            return None
        lam, xs, init = parts
        acc, elem = lam.args.args[0].arg, lam.args.args[1].arg
        loopvar = f"_ttsa_item_{at.lineno}_{at.col_offset}"
        if any(isinstance(x, ast.Name) and x.id == target_name for x in ast.walk(lam.body)) and target_name != acc:
            return None

        class S(ast.NodeTransformer):
            def visit_Name(s, n):
                if n.id == acc:
                    return ast.copy_location(_name(target_name, n.ctx), n)
                if n.id == elem:
                    return ast.copy_location(_name(loopvar, n.ctx), n)
                return n
        body = S().visit(copy.deepcopy(lam.body))
        first = _loc(ast.Assign(targets=[_name(target_name, ast.Store())], value=init), at)
        loop = _loc(ast.For(target=_name(loopvar, ast.Store()), iter=xs, body=[_loc(ast.Assign(targets=[_name(target_name, ast.Store())], value=body), at)], orelse=[],
                            type_comment=None), at)
        return [first, loop]

    def visit_Return(self, node):
        self.generic_visit(node)
        if isinstance(node.value, ast.Call):
            tmp = f"_ttsa_acc_{node.lineno}"
            r = self._reduce_loop(tmp, node.value, node)
            if r is not None:
                return r + [_loc(ast.Return(value=_name(tmp)), node)]
        pre = _hoist_walrus(node)
        return (pre + [node]) if pre else node

    def visit_Assign(self, node):
        self.generic_visit(node)
        if len(node.targets) == 1 and isinstance(node.targets[0], ast.Name) and isinstance(node.value, ast.Call):
            r = self._reduce_loop(node.targets[0].id, node.value, node)
            if r is not None:
                return r
        if len(node.targets) == 1 and isinstance(node.targets[0], ast.Name) and isinstance(node.value, ast.Lambda):
            lam = node.value
            return _loc(ast.FunctionDef(name=node.targets[0].id, args=lam.args, body=[_loc(ast.Return(value=lam.body), lam)], decorator_list=[], returns=None,
                                        type_comment=None, type_params=[]), node)
        pre = _hoist_walrus(node)
        return (pre + [node]) if pre else node

    def visit_For(self, node):
        self.generic_visit(node)
        if not node.orelse:
            return node
        brk = _own_breaks(node)
        tail, node.orelse = node.orelse, []
        if not brk:
            return [node] + tail
        # a loop that can be left by `break` keeps its else clause: the flow analyses and the interpreter model it exactly, a flag
        # variable would only hide the correlation between the break and what the else clause assigns
        node.orelse = tail
        return node

    visit_While = visit_For

    # ---- expressions
    def _display(self, node, kind):
        if not isinstance(node.ctx, ast.Load) or not any(isinstance(e, ast.Starred) for e in node.elts):
            return node
        mk = (lambda elts: ast.List(elts=elts, ctx=ast.Load())) if kind == "list" else (lambda elts: ast.Tuple(elts=elts, ctx=ast.Load()))
        parts, run = [], []
        for e in node.elts:
            if isinstance(e, ast.Starred):
                if run:
                    parts.append(mk(run))
                    run = []
                v = e.value
                if kind == "list":
                    if isinstance(v, ast.GeneratorExp):
                        v = ast.ListComp(elt=v.elt, generators=v.generators)
                    elif not _is_list_expr(v):
                        v = ast.Call(func=_name("list"), args=[v], keywords=[])
                else:
                    if not isinstance(v, ast.Tuple):
                        v = ast.Call(func=_name("tuple"), args=[v], keywords=[])
                parts.append(v)
            else:
                run.append(e)
        if run:
            parts.append(mk(run))
        out = parts[0]
        for p in parts[1:]:
            out = ast.BinOp(left=out, op=ast.Add(), right=p)
        return _loc(out, node)

    def visit_List(self, node):
        self.generic_visit(node)
        return self._display(node, "list")

    def visit_Tuple(self, node):
        self.generic_visit(node)
        return self._display(node, "tuple")

    def visit_Compare(self, node):
        self.generic_visit(node)
        if len(node.ops) > 1 and all(_call_free(c) or (isinstance(c, ast.Call) and isinstance(c.func, ast.Name) and c.func.id == "len" and len(c.args) == 1 and _call_free(c.args[0]))
                                     for c in node.comparators[:-1]):
            terms, left = [], node.left
            for op, c in zip(node.ops, node.comparators):
                terms.append(_loc(ast.Compare(left=left, ops=[op], comparators=[c]), node))
                left = copy.deepcopy(c)
            return _loc(ast.BoolOp(op=ast.And(), values=terms), node)
        return node

    def visit_Call(self, node):
        self.generic_visit(node)
        f = node.func
        if isinstance(f, ast.Name) and f.id == "isinstance" and len(node.args) == 2 and isinstance(node.args[1], ast.BinOp) and isinstance(node.args[1].op, ast.BitOr):
            def flat(e):
                return flat(e.left) + flat(e.right) if isinstance(e, ast.BinOp) and isinstance(e.op, ast.BitOr) else [e]
            node.args[1] = _loc(ast.Tuple(elts=flat(node.args[1]), ctx=ast.Load()), node.args[1])
        if isinstance(f, ast.Name) and f.id == "zip":
            node.keywords = [k for k in node.keywords if not (k.arg == "strict" and isinstance(k.value, ast.Constant) and k.value.value is False)]
        if isinstance(f, ast.Name) and f.id == "list" and len(node.args) == 1 and not node.keywords and isinstance(node.args[0], ast.GeneratorExp):
            g = node.args[0]
            return _loc(ast.ListComp(elt=g.elt, generators=g.generators), node)
        return node


def desugar(tree):
    tree = Desugar().visit(tree)
    ast.fix_missing_locations(tree)
    return tree
