"""X2 - index provenance in the cross-approximation sweeps (value-range analysis of integer index arrays).

Abstract values
  Sh(shape)            a (floating point) tensor of which only the shape matters; entries are polynomials in the symbolic
                       sizes N[j], rank[j], kick, d or None (unknown)
  Vec(length, bound)   a 1-D integer vector with all entries in [0, bound)
  Mat(axis, segs, n)   a 2-D integer matrix whose `axis` (0: rows, 1: columns) enumerates modes: `segs` is a list of
                       ('modes', lo, hi)  - consecutive positions holding indices of modes lo..hi-1, entry for mode j in [0, N[j])
                       ('one', bound)     - one position with entries in [0, bound)
                       n = length of the other axis
  Tup(items)

Declared invariants of the index store `Idx` (established by the initialisation loop, maintained by the sweeps - each store
is an obligation):  Left(j)  = Idx[j] read as  Idx[j][rows, :]  : rank[j] x j,   column i in [0, N[i])
                    Right(j) = Idx[j] read as  Idx[j][:, cols]  : (d-j) x rank[j], row i in [0, N[j+i])
Roles of the other arrays (cores[j]: rank[j] x N[j] x rank[j+1], Ps[j]: rank[j] x rank[j]) are the TT invariants of the
running approximation; QR / SVD are modelled by their shape laws for tall arguments (the wide case is the X1 rule).

Obligations
  X2-CALL     the index matrix handed to the user's function has exactly d columns and column j lies in [0, N[j])
  X2-GATHER   an argument tensor's core i is gathered with column i of such a matrix, along its mode axis
  X2-UNRAVEL  np.unravel_index(v, (a, b)): the entries of v are bounded by a*b (numpy raises otherwise); results are in [0,a), [0,b)
  X2-SELECT   rows / columns selected from Idx[j] are bounded by rank[j]
  X2-STORE    the matrix stored into Idx[j] is Left(j) (in the ascending sweep) or Right(j) (descending sweep, initialisation)
"""
from __future__ import annotations

import ast
from dataclasses import dataclass, field

from .model import Model, Func, norm, call_args
from .report import Ob, OK, VIOLATED, ERROR, INFO
from .e5.sym import P, ONE, ZERO, Facts


@dataclass
class Sh:
    shape: list


@dataclass
class Vec:
    length: object
    bound: object
    ones: bool = False


@dataclass
class Mat:
    axis: int
    segs: list
    n: object = None


@dataclass
class Tup:
    items: list


@dataclass
class IGrid:
    """integer tensor of a known shape with all entries in [0, bound)"""
    shape: list
    bound: object


@dataclass
class IntV:
    p: object


class Unk:
    def __repr__(self):
        return "?"


class CoreList:
    """the core list `<tensor>.cores` of some argument tensor (handed to a helper as a plain list)"""


UNK = Unk()


class _Fail(Exception):
    pass


class _Ret(Exception):
    def __init__(self, v):
        self.v = v


def _sz(fam, idx):
    return P.atom(f"{fam}[{idx!r}]")


class Ranges:
    def __init__(self, model: Model, short: str):
        self.model, self.short = model, short
        self.f = model.func(short)
        self.facts = Facts()
        self.obs = []
        self.fresh = 0
        self.env = {}
        self.k = P.atom("k")
        self.d = P.atom("d")
        self.loop_dir = None      # 'asc' | 'desc'
        self.callback = self.f.params()[0]
        self.seen = {}
        self.depth = 0
        self.f_cur = self.f
        self.nm = self.infer_names()
        from .rules import order_names
        self.orders = order_names(self.f.node) | {"d"}

    def infer_names(self):
        """the arrays are recognised by how they are initialised / stored, not by their names"""
        nm = {"Idx": "Idx", "Ps": "Ps", "cores": "cores", "rank": "rank", "N": "N", "Rm": "Rm"}
        f = self.f
        for s in f.node.body:
            if isinstance(s, ast.Assign) and len(s.targets) == 1 and isinstance(s.targets[0], ast.Name):
                t = s.targets[0].id
                calls = [c for c in ast.walk(s.value) if isinstance(c, ast.Call) and isinstance(c.func, ast.Attribute)]
                shapes = [norm(c.args[0]).replace(" ", "") for c in calls if c.args and c.func.attr in ("zeros", "ones")]
                has_none = any(isinstance(c, ast.Constant) and c.value is None for c in ast.walk(s.value))
                if has_none and "(1,0)" in shapes and "(0,1)" in shapes:
                    nm["Idx"] = t
                elif has_none and shapes.count("(1,1)") == 2:
                    nm["Ps"] = t
                elif not has_none and shapes == ["(1,1)"] and isinstance(s.value, ast.Call):
                    nm["Rm"] = t
        for n in ast.walk(f.node):
            if isinstance(n, ast.Assign) and len(n.targets) == 1 and isinstance(n.targets[0], ast.Subscript) and isinstance(n.targets[0].value, ast.Name) \
                    and isinstance(n.value, ast.Call) and call_args(n.value, "reshape") and len(call_args(n.value, "reshape")) == 2 \
                    and isinstance(call_args(n.value, "reshape")[1], ast.List):
                el = call_args(n.value, "reshape")[1].elts
                if len(el) == 3 and all(isinstance(e, ast.Subscript) and isinstance(e.value, ast.Name) for e in el) and el[0].value.id == el[2].value.id:
                    nm["cores"], nm["rank"], nm["N"] = n.targets[0].value.id, el[0].value.id, el[1].value.id
                    break
        return nm

    # ------------------------------------------------------------------ reporting
    def ob(self, rule, node, status, detail, construct=None):
        text = norm(node)[:90]
        n = self.seen.get((rule, text), 0)
        self.seen[(rule, text)] = n + 1
        key = f"{self.short}:{rule}:{text}:{n}"
        self.obs.append(Ob(rule, key, status, self.model.where(self.f_cur, node), construct or text, detail, nontrivial=True))

    def eq(self, a, b):
        if a is None or b is None:
            return None
        return self.facts.norm(P.of(a)) == self.facts.norm(P.of(b))

    # ------------------------------------------------------------------ integer expressions
    def int_of(self, e):
        """P for an integer-valued expression, or None"""
        if isinstance(e, ast.Constant) and isinstance(e.value, int) and not isinstance(e.value, bool):
            return P.const(e.value)
        if isinstance(e, ast.UnaryOp) and isinstance(e.op, ast.USub):
            v = self.int_of(e.operand)
            return None if v is None else -v
        if isinstance(e, ast.Name):
            v = self.env.get(e.id)
            if isinstance(v, IntV):
                return v.p
            if e.id in self.orders:
                return self.d
            if e.id == "kick":
                return P.atom("kick")
            return None
        if isinstance(e, ast.BinOp):
            a, b = self.int_of(e.left), self.int_of(e.right)
            if a is None or b is None:
                return None
            if isinstance(e.op, ast.Add):
                return a + b
            if isinstance(e.op, ast.Sub):
                return a - b
            if isinstance(e.op, ast.Mult):
                return a * b
            return None
        if isinstance(e, ast.Subscript) and isinstance(e.value, ast.Name) and e.value.id in (self.nm["N"], self.nm["rank"]):
            i = self.int_of(e.slice)
            if i is None:
                return None
            return _sz("N" if e.value.id == self.nm["N"] else "rank", self.facts.norm(i))
        if isinstance(e, ast.Subscript) and isinstance(e.value, ast.Attribute) and e.value.attr == "shape":
            v = self.ev(e.value.value)
            i = self.int_of(e.slice)
            if isinstance(v, Sh) and i is not None and i.const_value() is not None:
                c = int(i.const_value())
                if -len(v.shape) <= c < len(v.shape):
                    return v.shape[c]
            if isinstance(v, Mat) and i is not None and i.const_value() is not None:
                return None
            return None
        if isinstance(e, ast.Call) and isinstance(e.func, ast.Name) and e.func.id == "len" and len(e.args) == 1 and isinstance(e.args[0], ast.Name) \
                and e.args[0].id == self.nm["N"]:
            return self.d
        if isinstance(e, ast.Call) and isinstance(e.func, ast.Name) and e.func.id == "min" and len(e.args) == 2:
            a, b = self.int_of(e.args[0]), self.int_of(e.args[1])
            # min(N[k]*rank[k+1], rank[k]) = rank[k]: the start cores are orthogonalised, their ranks are bounded by the unfolding sizes
            for x, y in ((a, b), (b, a)):
                if x is not None and y is not None and repr(self.facts.norm(x)).startswith("rank[") and "*" in repr(self.facts.norm(y)):
                    return x
            return None
        return None

    def new_atom(self, base):
        self.fresh += 1
        return P.atom(f"{base}#{self.fresh}")

    # ------------------------------------------------------------------ expressions
    def ev(self, e):
        try:
            return self._ev(e)
        except _Fail:
            return UNK

    def _shape_list(self, e):
        if not isinstance(e, (ast.List, ast.Tuple)):
            return None
        out = []
        for x in e.elts:
            if isinstance(x, ast.UnaryOp) and isinstance(x.op, ast.USub) and isinstance(x.operand, ast.Constant) and x.operand.value == 1:
                out.append(-1)
            else:
                out.append(self.int_of(x))
        return out

    def _numel(self, shape):
        tot = ONE
        for s in shape:
            if s is None:
                return None
            tot = tot * s
        return self.facts.norm(tot)

    def _reshape(self, v, tgt, node):
        if tgt is None:
            return UNK
        if isinstance(v, Sh):
            if -1 in tgt:
                known = ONE
                for t in tgt:
                    if t == -1:
                        continue
                    if t is None:
                        return Sh([None] * len(tgt))
                    known = known * t
                tot = self._numel(v.shape)
                q = None if tot is None else tot.div(self.facts.norm(known))
                return Sh([(q if t == -1 else t) for t in tgt])
            return Sh(list(tgt))
        if isinstance(v, Vec):
            # column / row vector
            if len(tgt) == 2 and tgt[0] == -1 and self.eq(tgt[1], ONE):
                return Mat(1, [("one", v.bound)], v.length)
            if len(tgt) == 2 and tgt[1] == -1 and self.eq(tgt[0], ONE):
                return Mat(0, [("one", v.bound)], v.length)
            if len(tgt) > 2 and tgt.count(-1) == 1 and all(t == -1 or self.eq(t, ONE) for t in tgt):
                return IGrid([v.length if t == -1 else ONE for t in tgt], v.bound)      # arange(n).reshape([1, -1, 1, 1])
            return UNK
        if isinstance(v, IGrid):
            tot = self._numel(v.shape)
            if len(tgt) == 1 and tgt[0] == -1:
                return Vec(tot, v.bound)
            if len(tgt) == 2 and tgt[0] == -1 and self.eq(tgt[1], ONE):
                return Mat(1, [("one", v.bound)], tot)
            if len(tgt) == 2 and tgt[1] == -1 and self.eq(tgt[0], ONE):
                return Mat(0, [("one", v.bound)], tot)
            return UNK
        if isinstance(v, Mat):
            # reshape(eval_index, [-1, d]) of a matrix that already has its modes along the columns: a no-op when the column count is d
            if len(tgt) == 2 and tgt[0] == -1 and v.axis == 1:
                cnt = self.count(v.segs)
                if cnt is not None and self.eq(cnt, tgt[1]):
                    return v
            return UNK
        return UNK

    def count(self, segs):
        tot = ZERO
        for s in segs:
            if s[0] == "modes":
                tot = tot + (s[2] - s[1])
            else:
                tot = tot + ONE
        return self.facts.norm(tot)

    def _ev(self, e):
        i = self.int_of(e)
        if i is not None and not isinstance(e, (ast.Name, ast.Subscript)) or (isinstance(e, ast.Name) and isinstance(self.env.get(e.id), IntV)):
            return IntV(i)
        if isinstance(e, ast.Name):
            return self.env.get(e.id, UNK)
        if isinstance(e, ast.Tuple):
            return Tup([self.ev(x) for x in e.elts])
        if isinstance(e, ast.Attribute):
            base = self.ev(e.value)
            if e.attr in ("T", "mT"):
                return self._transpose(base)
            if e.attr == "cores":
                return CoreList()
            return UNK
        if isinstance(e, ast.BinOp):
            l, r = self.ev(e.left), self.ev(e.right)
            if isinstance(e.op, ast.MatMult) and isinstance(l, Sh) and isinstance(r, Sh) and len(l.shape) == 2 and len(r.shape) == 2:
                return Sh([l.shape[0], r.shape[1]])
            if isinstance(e.op, ast.Add) and isinstance(l, IGrid) and isinstance(r, IGrid) and len(l.shape) == len(r.shape) \
                    and l.bound is not None and r.bound is not None:
                shp = []
                for a_, b_ in zip(l.shape, r.shape):
                    if self.eq(a_, ONE):
                        shp.append(b_)
                    elif self.eq(b_, ONE) or self.eq(a_, b_):
                        shp.append(a_)
                    else:
                        raise _Fail()
                return IGrid(shp, self.facts.norm(l.bound + r.bound - 1))
            if isinstance(e.op, (ast.Mod, ast.FloorDiv)) and isinstance(l, Vec):
                return self._divmod(l, self.int_of(e.right), isinstance(e.op, ast.Mod))
            if isinstance(e.op, ast.Add):
                # x + 0 copy idiom
                if isinstance(e.right, ast.Constant) and e.right.value == 0:
                    return l
                if isinstance(l, Sh):
                    return l
            if isinstance(l, Sh) and isinstance(e.op, (ast.Mult, ast.Div, ast.Sub)) and not isinstance(r, (Vec, Mat)):
                return l
            return UNK
        if isinstance(e, ast.Subscript):
            return self._subscript(e)
        if isinstance(e, ast.Call):
            return self._call(e)
        return UNK

    def _divmod(self, v: Vec, n, mod: bool):
        """entries of v in [0, B): v % n lies in [0, n); v // n lies in [0, B/n) when n divides B (mixed-radix digits of a flat index)"""
        if n is None or v.bound is None or v.ones:
            raise _Fail()
        if mod:
            return Vec(v.length, n)
        q = self.facts.norm(v.bound).div(self.facts.norm(n))
        if q is None:
            raise _Fail()
        return Vec(v.length, q)

    def _transpose(self, v):
        if isinstance(v, Sh) and len(v.shape) == 2:
            return Sh([v.shape[1], v.shape[0]])
        if isinstance(v, Mat):
            return Mat(1 - v.axis, v.segs, v.n)
        return UNK

    # ------------------------------------------------------------------ subscripts
    def _role(self, name, idx):
        i = self.facts.norm(idx)
        if name == "cores":
            return Sh([_sz("rank", i), _sz("N", i), _sz("rank", self.facts.norm(i + 1))])
        if name == "Ps":
            return Sh([_sz("rank", i), _sz("rank", i)])
        return None

    def _subscript(self, e):
        # Idx[j][sel, :]  /  Idx[j][:, sel]
        if isinstance(e.value, ast.Subscript) and isinstance(e.value.value, ast.Name) and e.value.value.id == self.nm["Idx"]:
            j = self.int_of(e.value.slice)
            sl = e.slice
            if j is None or not isinstance(sl, ast.Tuple) or len(sl.elts) != 2:
                raise _Fail()
            j = self.facts.norm(j)
            a, b = sl.elts
            full = lambda x: isinstance(x, ast.Slice) and x.lower is None and x.upper is None and x.step is None
            if full(b):
                sel = self.ev(a)
                self._select(e, sel, j, "rows")
                return Mat(1, [("modes", ZERO, j)], sel.length if isinstance(sel, Vec) else None)
            if full(a):
                sel = self.ev(b)
                self._select(e, sel, j, "columns")
                return Mat(0, [("modes", j, self.d)], sel.length if isinstance(sel, Vec) else None)
            raise _Fail()
        if isinstance(e.value, ast.Name) and e.value.id in (self.nm["cores"], self.nm["Ps"]):
            j = self.int_of(e.slice)
            if j is None:
                raise _Fail()
            return self._role("cores" if e.value.id == self.nm["cores"] else "Ps", j)
        base = self.ev(e.value)
        sl = e.slice
        if isinstance(base, Tup):
            i = self.int_of(sl)
            if i is not None and i.const_value() is not None and 0 <= int(i.const_value()) < len(base.items):
                return base.items[int(i.const_value())]
            raise _Fail()
        if isinstance(base, Vec):
            if isinstance(sl, ast.Slice) and sl.step is None and sl.lower is None:
                return Vec(self.int_of(sl.upper) if sl.upper is not None else base.length, base.bound)
            raise _Fail()
        if isinstance(base, Sh):
            elts = sl.elts if isinstance(sl, ast.Tuple) else [sl]
            if any(isinstance(x, ast.Constant) and x.value is Ellipsis for x in elts):
                raise _Fail()
            shp = []
            for ax, x in enumerate(elts):
                if ax >= len(base.shape):
                    raise _Fail()
                if isinstance(x, ast.Slice):
                    if x.lower is None and x.upper is None and x.step is None:
                        shp.append(base.shape[ax])
                    elif x.lower is None and x.step is None:
                        shp.append(self.int_of(x.upper))
                    else:
                        shp.append(None)
                else:
                    v = self.ev(x)
                    if isinstance(v, IntV):
                        continue
                    if isinstance(v, Vec):
                        shp.append(v.length)
                        continue
                    raise _Fail()
            shp += base.shape[len(elts):]
            return Sh(shp)
        if isinstance(base, Mat):
            # eval_index[:, i]: column i of an index matrix
            if isinstance(sl, ast.Tuple) and len(sl.elts) == 2 and isinstance(sl.elts[0], ast.Slice) and base.axis == 1:
                col = self.int_of(sl.elts[1])
                if col is None and isinstance(sl.elts[1], ast.Name):
                    col = P.atom(sl.elts[1].id)
                if col is not None:
                    b = self.column_bound(base, col)
                    v = Vec(base.n, b)
                    v.column_of = (base, col)
                    return v
            raise _Fail()
        raise _Fail()

    def aligned(self, m: Mat):
        """(ok, why): positions hold modes 0..d-1 in order, each bounded by its own mode size"""
        pos = ZERO
        for s in m.segs:
            if s[0] == "modes":
                if not self.eq(s[1], pos):
                    return False, f"positions {self.facts.norm(pos)!r}.. hold the indices of modes {self.facts.norm(s[1])!r}..{self.facts.norm(s[2])!r}-1"
                pos = s[2]
            else:
                want = _sz("N", self.facts.norm(pos))
                if s[1] is None or not self.eq(s[1], want):
                    return False, f"position {self.facts.norm(pos)!r} holds values in [0, {s[1]!r}) where mode {self.facts.norm(pos)!r} has size {want!r}"
                pos = pos + ONE
        if not self.eq(pos, self.d):
            return False, f"{self.facts.norm(pos)!r} positions where d are needed"
        return True, ""

    def column_bound(self, m: Mat, col):
        ok, _ = self.aligned(m)
        return _sz("N", self.facts.norm(col)) if ok else None

    def _select(self, node, sel, j, what):
        if not isinstance(sel, Vec) or sel.bound is None:
            self.ob("X2-SELECT", node, ERROR, f"selector of {what} of Idx[{j!r}] is not modelled")
            return
        want = _sz("rank", j)
        if self.eq(sel.bound, want):
            self.ob("X2-SELECT", node, OK, f"{what} selected from Idx[{j!r}] are bounded by rank[{j!r}]")
        else:
            self.ob("X2-SELECT", node, VIOLATED,
                    f"{self.short}: `{norm(node)[:80]}` selects {what} of Idx[{j!r}] with indices in [0, {self.facts.norm(sel.bound)!r}), but Idx[{j!r}] has "
                    f"rank[{j!r}] {what}: out-of-range selection (IndexError) or rows of the wrong index set")

    # ------------------------------------------------------------------ calls
    def _call(self, e: ast.Call):
        fn = e.func
        name = norm(fn)
        last = name.rsplit(".", 1)[-1]
        args = e.args
        if isinstance(fn, ast.Name) and fn.id == self.callback:
            v = self.ev(args[0]) if args else UNK
            if self.short.endswith("dmrg_cross"):
                if isinstance(v, Mat) and v.axis == 1:
                    ok, why = self.aligned(v)
                    self.ob("X2-CALL", e, OK if ok else VIOLATED,
                            "the user's function receives an index matrix with d columns, column j in [0, N[j])" if ok else
                            f"{self.short}: the index matrix handed to the user's function is malformed: {why}")
                else:
                    self.ob("X2-CALL", e, ERROR, "argument of the user's function is not a modelled index matrix")
            return Sh([None])
        if last == "arange" and args:
            n = self.int_of(args[0])
            return Vec(n, n)
        if last == "ones" and args:
            n = self.int_of(args[0])
            if n is not None:
                return Vec(n, P.const(2), ones=True)
            return UNK
        if last in ("remainder", "fmod", "floor_divide", "div") and len(args) == 2:
            v = self.ev(args[0])
            floor = last == "floor_divide" or (last == "div" and any(kw.arg == "rounding_mode" and isinstance(kw.value, ast.Constant)
                                                                     and kw.value.value in ("floor", "trunc") for kw in e.keywords))
            if isinstance(v, Vec) and (floor or last in ("remainder", "fmod")):
                return self._divmod(v, self.int_of(args[1]), last in ("remainder", "fmod"))
            raise _Fail()
        if last == "kron" and len(args) == 2:
            a, b = self.ev(args[0]), self.ev(args[1])
            if isinstance(a, Vec) and isinstance(b, Vec):
                ln = None if a.length is None or b.length is None else a.length * b.length
                if a.ones and b.ones:
                    return Vec(ln, P.const(2), ones=True)
                if a.ones:
                    return Vec(ln, b.bound)
                if b.ones:
                    return Vec(ln, a.bound)
            raise _Fail()
        if last == "reshape":
            if isinstance(fn, ast.Attribute) and norm(fn.value) not in ("tn", "torch", "np", "numpy"):
                v = self.ev(fn.value)
                tgt = self._shape_list(args[0]) if args else None
            else:
                v = self.ev(args[0])
                tgt = self._shape_list(args[1]) if len(args) > 1 else None
            return self._reshape(v, tgt, e)
        if last in ("t",) and isinstance(fn, ast.Attribute) and not args:
            return self._transpose(self.ev(fn.value))
        if last in ("to", "cpu", "numpy", "clone", "contiguous", "flatten") and isinstance(fn, ast.Attribute):
            v = self.ev(fn.value)
            if last == "flatten":
                return UNK
            return v
        if last == "tensor" and args:
            return self.ev(args[0])
        if last in ("concat", "cat", "hstack", "vstack", "concatenate") and args:
            items = args[0].elts if isinstance(args[0], (ast.Tuple, ast.List)) else None
            if items is None:
                raise _Fail()
            vals = [self.ev(x) for x in items]
            if last == "hstack":
                axis = 1
            elif last == "vstack":
                axis = 0
            else:
                ax = self.int_of(args[1]) if len(args) > 1 else None
                for kw in e.keywords:
                    if kw.arg in ("dim", "axis"):
                        ax = self.int_of(kw.value)
                axis = int(ax.const_value()) if ax is not None and ax.const_value() is not None else 0
            if all(isinstance(v, Mat) for v in vals):
                if all(v.axis == axis for v in vals):
                    segs = []
                    for v in vals:
                        segs += v.segs
                    return Mat(axis, segs, vals[0].n)
                raise _Fail()
            if all(isinstance(v, Sh) and len(v.shape) == 2 for v in vals):
                other = 1 - axis
                tot = ZERO
                for v in vals:
                    if v.shape[axis] is None:
                        tot = None
                        break
                    tot = tot + v.shape[axis]
                shp = [None, None]
                shp[axis] = tot
                shp[other] = vals[0].shape[other]
                return Sh(shp)
            raise _Fail()
        if last == "unravel_index" and len(args) == 2:
            v = self.ev(args[0])
            shp = self._shape_list(args[1])
            if not isinstance(v, Vec) or v.bound is None or shp is None or len(shp) != 2 or None in shp:
                self.ob("X2-UNRAVEL", e, ERROR, "argument of unravel_index is not a modelled index vector")
                raise _Fail()
            prod = self.facts.norm(shp[0] * shp[1])
            if self.eq(v.bound, prod):
                self.ob("X2-UNRAVEL", e, OK, f"flat indices in [0, {prod!r}) are unravelled over a shape with that many entries")
            else:
                self.ob("X2-UNRAVEL", e, VIOLATED,
                        f"{self.short}: `{norm(e)[:90]}` unravels flat indices that range over [0, {self.facts.norm(v.bound)!r}) (the rows of the matrix "
                        f"maxvol searched) with the shape ({self.facts.norm(shp[0])!r}, {self.facts.norm(shp[1])!r}) of {prod!r} entries: numpy raises "
                        "ValueError when an index exceeds the shape, and the two components are bounded by the wrong sizes otherwise")
            return Tup([Vec(v.length, shp[0]), Vec(v.length, shp[1])])
        if last == "_maxvol" and args:
            v = self.ev(args[0])
            if isinstance(v, Sh) and len(v.shape) == 2 and v.shape[0] is not None:
                return Vec(v.shape[1], v.shape[0])
            raise _Fail()
        if last == "QR" and args:
            v = self.ev(args[0])
            if isinstance(v, Sh) and len(v.shape) == 2:
                return Tup([Sh([v.shape[0], v.shape[1]]), Sh([v.shape[1], v.shape[1]])])
            return Tup([UNK, UNK])
        if last == "SVD" and args:
            v = self.ev(args[0])
            if isinstance(v, Sh) and len(v.shape) == 2:
                p = self.new_atom("p")
                return Tup([Sh([v.shape[0], p]), Sh([p]), Sh([p, v.shape[1]])])
            return Tup([UNK, UNK, UNK])
        if last == "einsum" and args and isinstance(args[0], ast.Constant) and isinstance(args[0].value, str) and "->" in args[0].value:
            spec = args[0].value.replace(" ", "")
            ins, out = spec.split("->")
            ops = [self.ev(a) for a in args[1:]]
            bind = {}
            for sub, v in zip(ins.split(","), ops):
                if isinstance(v, Sh) and len(v.shape) == len(sub):
                    for l, s in zip(sub, v.shape):
                        if s is not None and l not in bind:
                            bind[l] = s
            return Sh([bind.get(l) for l in out])
        if last == "solve" and len(args) == 2:
            return self.ev(args[1])
        if last in ("randn", "zeros", "rand") and args:
            shp = self._shape_list(args[0])
            if shp is not None:
                if last == "zeros" and any(kw.arg == "dtype" and "int" in norm(kw.value) for kw in e.keywords) and None not in shp and -1 not in shp:
                    return IGrid(shp, ONE)
                return Sh(shp)
            raise _Fail()
        if last in ("repeat_interleave", "repeat") and isinstance(fn, ast.Attribute) and len(args) == 1:
            v = self.ev(fn.value)
            n = self.int_of(args[0])
            if isinstance(v, Vec) and n is not None:
                return Vec(None if v.length is None else v.length * n, v.bound, v.ones)
            raise _Fail()
        if last == "diag" and args:
            v = self.ev(args[0])
            if isinstance(v, Sh) and len(v.shape) == 1:
                return Sh([v.shape[0], v.shape[0]])
            raise _Fail()
        if isinstance(fn, ast.Name) and fn.id != self.callback:
            callee = self.model.functions.get(f"{self.f.module.name}.{fn.id}")
            if callee is not None and self.depth < 2 and not e.keywords:
                return self._inline(callee, args)
        raise _Fail()

    def _inline(self, callee: Func, args):
        """evaluate a helper of the same module with the caller's arrays bound to its parameters (role arrays keep their role)"""
        params = callee.params()
        if len(args) > len(params):
            raise _Fail()
        saved = (self.env, dict(self.nm), self.orders, self.f_cur)
        role_of = {v: k for k, v in self.nm.items()}
        env2, nm2 = {}, dict(self.nm)
        for p_, a in zip(params, args):
            if isinstance(a, ast.Name) and a.id in role_of:
                nm2[role_of[a.id]] = p_
            else:
                i = self.int_of(a)
                env2[p_] = IntV(i) if i is not None else self.ev(a)
        from .rules import order_names
        self.env, self.nm, self.orders, self.f_cur = env2, nm2, order_names(callee.node) | {"d"}, callee
        self.depth += 1
        try:
            try:
                self.block(callee.node.body)
            except _Ret as r:
                return r.v
            return UNK
        finally:
            self.depth -= 1
            self.env, self.nm, self.orders, self.f_cur = saved[0], saved[1], saved[2], saved[3]

    # ------------------------------------------------------------------ statements
    def run(self):
        f = self.f
        loops = [n for n in ast.walk(f.node) if isinstance(n, ast.For) and isinstance(n.target, ast.Name) and isinstance(n.iter, ast.Call)
                 and norm(n.iter.func) == "range" and any(isinstance(x, ast.Name) and x.id in self.orders for x in ast.walk(n.iter))
                 and any(isinstance(x, ast.Subscript) and isinstance(x.value, ast.Name) and x.value.id == self.nm["Idx"] for x in ast.walk(n))]
        loops = [l for l in loops if not any(o is not l and any(m is l for m in ast.walk(o)) for o in loops)]
        if len(loops) < 3:
            self.obs.append(Ob("X2-STORE", f"{self.short}:X2:loops", ERROR, self.model.where(f), self.short,
                               f"expected the initialisation loop and both sweep loops over the index store Idx, found {len(loops)}"))
            return self.obs
        for l in loops:
            a = l.iter.args
            desc = len(a) == 3 and isinstance(a[2], ast.UnaryOp)
            self.loop_dir = "desc" if desc else "asc"
            self.env = {l.target.id: IntV(self.k)}
            self.var = l.target.id
            # role of the loop-carried R factor of the initialisation loop
            self.env[self.nm["Rm"]] = Sh([_sz("rank", self.facts.norm(self.k + 1)), _sz("rank", self.facts.norm(self.k + 1))])
            self.block(l.body)
        return self.obs

    def block(self, stmts):
        for s in stmts:
            self.stmt(s)

    def stmt(self, s):
        if isinstance(s, ast.If):
            self.block(s.body)
            self.block(s.orelse)
            return
        if isinstance(s, ast.For):
            # inner loops over the argument tensors / positions of function_interpolate: the loop variable is a generic position
            if isinstance(s.target, ast.Name):
                self.env[s.target.id] = UNK
            self.gathers(s)
            return
        if isinstance(s, ast.Expr):
            self.ev(s.value)
            return
        if isinstance(s, ast.Return) and self.depth > 0:
            raise _Ret(self.ev(s.value) if s.value is not None else UNK)
        if not isinstance(s, ast.Assign) or len(s.targets) != 1:
            return
        t0 = s.targets[0]
        if isinstance(t0, (ast.Tuple, ast.List)) and isinstance(s.value, (ast.Tuple, ast.List)) and len(t0.elts) == len(s.value.elts) \
                and all(isinstance(x, ast.Name) for x in t0.elts) \
                and not ({x.id for x in t0.elts} & {y.id for v in s.value.elts for y in ast.walk(v) if isinstance(y, ast.Name)}):
            # a, b = X, Y with targets that the right-hand side does not read: the same as a = X; b = Y
            for x, v in zip(t0.elts, s.value.elts):
                self.stmt(ast.copy_location(ast.Assign(targets=[x], value=v), s))
            return
        self.gathers(s)
        t = s.targets[0]
        # rank[e] = X.shape[i]: from here on the symbol rank[e] denotes that size
        if isinstance(t, ast.Subscript) and isinstance(t.value, ast.Name) and t.value.id == self.nm["rank"]:
            i = self.int_of(t.slice)
            v = self.int_of(s.value)
            if i is not None and v is not None:
                r = _sz("rank", self.facts.norm(i))
                vn = self.facts.norm(v)
                if vn != self.facts.norm(r):
                    # orient towards the run-time integer: rnew#1 := rank[e] - (rest)
                    for a in sorted(x for x in vn.atoms() if "#" in x):
                        rest = vn - P.atom(a)
                        if a not in rest.atoms():
                            self.facts.set_sub(a, self.facts.norm(r - rest), "rank update")
                            break
            return
        if isinstance(t, ast.Subscript) and isinstance(t.value, ast.Name) and t.value.id == self.nm["Idx"]:
            self.store(s, t)
            return
        val = self.ev(s.value)
        if isinstance(t, ast.Name) and isinstance(val, Unk) and self.int_of(s.value) is not None:
            val = IntV(self.int_of(s.value))    # n = N[k] / r = rank[k+1]: a size with a name
        if isinstance(t, ast.Name) and isinstance(val, Unk) and self._intish(s.value):
            val = IntV(self.new_atom(t.id))     # a run-time integer (selected rank, ...): an unknown but fixed size
        if isinstance(t, ast.Name):
            self.env[t.id] = val
        elif isinstance(t, (ast.Tuple, ast.List)):
            items = val.items if isinstance(val, Tup) and len(val.items) == len(t.elts) else [UNK] * len(t.elts)
            for x, v in zip(t.elts, items):
                if isinstance(x, ast.Name):
                    self.env[x.id] = v

    def _intish(self, e):
        for n in ast.walk(e):
            if isinstance(n, ast.Call) and norm(n.func).rsplit(".", 1)[-1] in ("min", "max", "rank_chop", "int", "len"):
                return True
        return False

    def store(self, s, t):
        j = self.int_of(t.slice)
        v = self.ev(s.value)
        if j is None or not isinstance(v, Mat):
            self.ob("X2-STORE", s, ERROR, "store into the index store is not modelled")
            return
        j = self.facts.norm(j)
        want_left = self.loop_dir == "asc"
        if want_left:
            ok = v.axis == 1 and self._is_modes(v.segs, ZERO, j)
            kind = f"Left({j!r}): columns = modes 0..{j!r}-1"
        else:
            ok = v.axis == 0 and self._is_modes(v.segs, j, self.d)
            kind = f"Right({j!r}): rows = modes {j!r}..d-1"
        self.ob("X2-STORE", s, OK if ok else VIOLATED,
                f"stored matrix is {kind}, each bounded by its mode size" if ok else
                f"{self.short}: `{norm(s)[:90]}` must store {kind} with the entry for mode i in [0, N[i]) (the "
                f"{'ascending' if want_left else 'descending'} sweep extends the {'left' if want_left else 'right'} index sets); the stored matrix has "
                f"{'columns' if v.axis == 1 else 'rows'} {self._show(v.segs)}")

    def _is_modes(self, segs, lo, hi):
        pos = lo
        for sg in segs:
            if sg[0] == "modes":
                if not self.eq(sg[1], pos):
                    return False
                pos = sg[2]
            else:
                if sg[1] is None or not self.eq(sg[1], _sz("N", self.facts.norm(pos))):
                    return False
                pos = pos + ONE
        return bool(self.eq(pos, hi))

    def _show(self, segs):
        out = []
        for sg in segs:
            if sg[0] == "modes":
                out.append(f"modes[{self.facts.norm(sg[1])!r}:{self.facts.norm(sg[2])!r}]")
            else:
                out.append(f"[0,{self.facts.norm(sg[1])!r})" if sg[1] is not None else "[?]")
        return " | ".join(out)

    def gathers(self, root):
        """function_interpolate: C.cores[i][.., eval_index[:, i], :] - the core of position i is gathered with column i"""
        for n in ast.walk(root):
            if not (isinstance(n, ast.Subscript) and isinstance(n.value, ast.Subscript) and isinstance(n.slice, ast.Tuple)):
                continue
            lst = n.value.value
            if not ((isinstance(lst, ast.Attribute) and lst.attr == "cores") or (isinstance(lst, ast.Name) and isinstance(self.env.get(lst.id), CoreList))):
                continue
            core_pos = n.value.slice
            for ax, x in enumerate(n.slice.elts):
                if isinstance(x, ast.Subscript) and isinstance(x.slice, ast.Tuple) and len(x.slice.elts) == 2 and isinstance(x.slice.elts[0], ast.Slice):
                    m = self.ev(x.value)
                    col = x.slice.elts[1]
                    if not isinstance(m, Mat):
                        self.ob("X2-GATHER", n, ERROR, "gather index is not a column of a modelled index matrix")
                        continue
                    okm, why = (m.axis == 1 and self.aligned(m)[0]), ""
                    same = norm(col) == norm(core_pos)
                    mode_axis = ax == 1
                    ok = okm and same and mode_axis
                    self.ob("X2-GATHER", n, OK if ok else VIOLATED,
                            f"core {norm(core_pos)} is gathered along its mode axis with column {norm(col)} of an aligned index matrix" if ok else
                            f"{self.short}: `{norm(n)[:90]}`: " + ("the index matrix is not aligned with the modes; " if not okm else "") +
                            (f"core {norm(core_pos)} is gathered with column {norm(col)} (values bounded by another mode's size); " if not same else "") +
                            ("the gather is not along the mode axis of the core" if not mode_axis else ""))


def check_function(model: Model, short: str):
    if not model.has_func(short):
        return [Ob("X2-STORE", f"{short}:X2:anchor", ERROR, "", short, f"{short} vanished")]
    return Ranges(model, short).run()


# --------------------------------------------------------------------------- RANK-BOUND

def rule_rank_bound(model: Model, short: str):
    """After U, S, V = SVD(X) the factors are cut to a rank r (U[:, :r], S[:r], V[:r, :]).  rank_chop returns at most the number of
    singular values p; the cross routines keep one more (`+ 1`), so r must be clamped by p afterwards.  Abstract values of an integer
    expression: BOUNDED (<= p), EXCEEDS (may be p + c, c > 0), UNKNOWN.  min(p, anything) is BOUNDED; rank_chop(...) is BOUNDED;
    BOUNDED + positive constant EXCEEDS.  A cut by a rank that EXCEEDS is reported: torch slices silently to p columns, and the
    bookkeeping that follows (enrichment padding, reshape targets) uses the larger number."""
    f = model.func(short)
    obs = []
    for blk in _blocks_of(f.node):
        for i, st in enumerate(blk):
            if not (isinstance(st, ast.Assign) and isinstance(st.targets[0], ast.Tuple) and len(st.targets[0].elts) == 3 and isinstance(st.value, ast.Call)
                    and norm(st.value.func).rsplit(".", 1)[-1] == "SVD"):
                continue
            names = [e.id if isinstance(e, ast.Name) else None for e in st.targets[0].elts]
            U, S, V = names
            state = {}       # int name -> BOUNDED / EXCEEDS / UNKNOWN

            def p_expr(e):
                t = norm(e).replace(" ", "")
                return t in (f"{S}.shape[0]", f"len({S})", f"{S}.numel()", f"{U}.shape[1]", f"{V}.shape[0]", f"{S}.size(0)")

            def val(e):
                if p_expr(e):
                    return "BOUNDED"
                if isinstance(e, ast.Name):
                    return state.get(e.id, "UNKNOWN")
                if isinstance(e, ast.Call) and norm(e.func).rsplit(".", 1)[-1] == "rank_chop":
                    return "BOUNDED"
                if isinstance(e, ast.Call) and norm(e.func) == "min":
                    args = e.args[0].elts if len(e.args) == 1 and isinstance(e.args[0], (ast.List, ast.Tuple)) else e.args
                    vs = [val(a) for a in args]
                    if "BOUNDED" in vs:
                        return "BOUNDED"
                    return "EXCEEDS" if all(v == "EXCEEDS" for v in vs) and vs else "UNKNOWN"
                if isinstance(e, ast.BinOp) and isinstance(e.op, ast.Add):
                    for a, b in ((e.left, e.right), (e.right, e.left)):
                        if isinstance(b, ast.Constant) and isinstance(b.value, int) and b.value > 0:
                            va = val(a)
                            return "EXCEEDS" if va in ("BOUNDED", "EXCEEDS") else "UNKNOWN"
                return "UNKNOWN"
            for nxt in blk[i + 1:]:
                if isinstance(nxt, ast.Assign) and isinstance(nxt.targets[0], ast.Tuple) and isinstance(nxt.value, ast.Call) and norm(nxt.value.func).rsplit(".", 1)[-1] == "SVD":
                    break
                if isinstance(nxt, ast.Assign) and isinstance(nxt.targets[0], ast.Name):
                    tgt = nxt.targets[0].id
                    # the cut itself:  U = U[:, :r]
                    cut = None
                    v_ = nxt.value
                    if isinstance(v_, ast.Subscript) and isinstance(v_.value, ast.Name) and v_.value.id in (U, S, V):
                        sl = v_.slice.elts if isinstance(v_.slice, ast.Tuple) else [v_.slice]
                        for s_ in sl:
                            if isinstance(s_, ast.Slice) and s_.lower is None and isinstance(s_.upper, ast.Name):
                                cut = s_.upper.id
                    if cut is not None:
                        k = f"{short}:RANK-BOUND:{norm(nxt)[:50]}:{len(obs)}"
                        v = state.get(cut, "UNKNOWN")
                        if v == "EXCEEDS":
                            obs.append(Ob("RANK-BOUND", k, VIOLATED, model.where(f, nxt), norm(nxt),
                                          f"{short}: `{norm(nxt)}` cuts an SVD factor to `{cut}`, which can exceed the number of singular values (a rank selected "
                                          "by rank_chop plus a positive constant, not clamped by the spectrum length afterwards): the slice silently keeps fewer "
                                          "columns than the rank that the following bookkeeping (enrichment padding, reshapes) uses"))
                        elif v == "BOUNDED":
                            obs.append(Ob("RANK-BOUND", k, OK, model.where(f, nxt), norm(nxt), f"`{cut}` is clamped by the number of singular values"))
                        else:
                            obs.append(Ob("RANK-BOUND", k, INFO, model.where(f, nxt), norm(nxt), f"bound of `{cut}` not derived"))
                        continue
                    if isinstance(nxt.value, (ast.Call, ast.BinOp, ast.Name)):
                        state[tgt] = val(nxt.value)
    return obs


def _blocks_of(node):
    for n in ast.walk(node):
        for fld in ("body", "orelse"):
            b = getattr(n, fld, None)
            if isinstance(b, list) and b and isinstance(b[0], ast.stmt):
                yield b
