"""Obligations, verdicts, evidence files, known findings, replay files.

Exit codes (DESIGN.md section 1, "Verdict discipline"):
  0  every obligation discharged (known findings printed as KNOWN-FINDING lines)
  1  definite violation: VIOLATION property=<id> replay=<path>
  2  analysis could not be carried out: ANALYSIS-ERROR ...
"""
from __future__ import annotations

import hashlib
import json
import os
import time
from dataclasses import dataclass, field, asdict

VERIF = os.path.dirname(os.path.dirname(os.path.abspath(__file__)))
KNOWN_FINDINGS = os.path.join(VERIF, "known_findings.jsonl")

OK, VIOLATED, ERROR, INFO = "ok", "violated", "error", "info"


@dataclass
class Ob:
    """One obligation (rule instance) decided on the current tree."""
    rule: str            # rule name, e.g. UNRAISED, E3-MUTATION, E5-CHAIN
    key: str             # stable key: module:function:rule:normalised construct (no line numbers)
    status: str          # ok | violated | error | info
    where: str = ""      # file:line for messages only
    construct: str = ""  # normalised source text / scenario name
    detail: str = ""     # the diagnosis
    nontrivial: bool = True   # touches a repository construct (counted in distinct_nontrivial)

    def short(self):
        return {"rule": self.rule, "key": self.key, "status": self.status,
                "where": self.where, "construct": self.construct[:200], "detail": self.detail[:400]}


class AnalysisError(Exception):
    """The analysis cannot be carried out (anchor vanished, unmodelled construct on a checked path)."""


def load_known():
    known, fixed = {}, {}
    if os.path.exists(KNOWN_FINDINGS):
        with open(KNOWN_FINDINGS) as f:
            for line in f:
                line = line.strip()
                if not line or line.startswith("#") or line.startswith("fixed:"):
                    continue   # "fixed: property=<id> <commit> <what failed>" lines suppress nothing
                e = json.loads(line)
                if e.get("status") == "known":
                    known[(e["property"], e["key"])] = e
                else:
                    fixed[(e["property"], e["key"])] = e
    return known, fixed


def finish(pid: str, tier: str, obs: list[Ob], meta: dict, t0: float, errors: list[str]) -> int:
    """Print the verdict, write evidence and replay files, return the exit code."""
    known, _fixed = load_known()
    seed = int(os.environ.get("VERIF_SEED", "0") or 0)
    viol = [o for o in obs if o.status == VIOLATED]
    errs = [o for o in obs if o.status == ERROR]
    new_viol, known_hits = [], []
    for o in viol:
        if (pid, o.key) in known:
            known_hits.append(o)
        else:
            new_viol.append(o)

    # floors: a rule matching fewer instances than confirmed by hand passes vacuously -> analysis error
    counts: dict[str, int] = {}
    for o in obs:
        counts[o.rule] = counts.get(o.rule, 0) + 1
    for rule, floor in (meta.get("floors") or {}).items():
        if counts.get(rule, 0) < floor:
            errors.append(f"floor: rule {rule} matched {counts.get(rule, 0)} instances, "
                          f"fewer than the {floor} confirmed by hand")

    replay_dir = os.path.join(VERIF, "out", "replay", pid)
    lines = []
    for o in known_hits:
        lines.append(f"KNOWN-FINDING: property={pid} {o.key} :: {o.detail[:200]}")
    for o in new_viol:
        os.makedirs(replay_dir, exist_ok=True)
        h = hashlib.sha1(o.key.encode()).hexdigest()[:12]
        path = os.path.join(replay_dir, f"{h}.json")
        with open(path, "w") as f:
            json.dump({"property": pid, **asdict(o)}, f, indent=1)
        lines.append(f"VIOLATION property={pid} replay={path}")
        lines.append(f"  rule={o.rule} at {o.where}: {o.construct[:160]}")
        lines.append(f"  {o.detail[:600]}")
    for o in errs:
        lines.append(f"ANALYSIS-ERROR property={pid} rule={o.rule} at {o.where}: {o.detail[:400]}")
    for e in errors:
        lines.append(f"ANALYSIS-ERROR property={pid} {e[:600]}")

    if new_viol:
        code = 1
    elif errs or errors:
        code = 2
    else:
        code = 0

    decided = [o for o in obs if o.status in (OK, VIOLATED)]
    discharged = [o for o in obs if o.status == OK]
    distinct = {o.key for o in decided if o.nontrivial}
    samples = [o.short() for o in (new_viol + known_hits)[:6]]
    seen_rules = set()
    for o in obs:
        if o.rule not in seen_rules and len(samples) < 24:
            seen_rules.add(o.rule)
            samples.append(o.short())
    wall = time.time() - t0
    ev = {
        "property_id": pid,
        "tier": tier,
        "seed": seed,
        "level": "other",
        "coverage": {
            "explanation": meta.get("explanation", ""),
            "obligations": len(decided),
            "discharged": len(discharged),
            "evaluations": max(len(obs), 1),
            "distinct_nontrivial": len(distinct),
            "rule": "one obligation per (rule, repository construct/scenario) enumerated from /repo's current "
                    "source; distinct = distinct stable keys (module:function:rule:construct); non-trivial = "
                    "the obligation refers to a construct that exists in the analysed tree",
            "samples": samples,
            "per_rule": counts,
            "floors": meta.get("floors") or {},
            "units": meta.get("units") or [],
            "renamed_helpers": meta.get("renamed_helpers") or {},      # pinned name -> name in the analysed tree (recognised by fingerprint)
            "functions_analysed": meta.get("functions") or [],
            "unmodelled": meta.get("unmodelled") or [],
            "info": [o.short() for o in obs if o.status == INFO][:40],
            "known_findings_hit": [o.key for o in known_hits],
            "analysis_errors": [o.short() for o in errs][:20] + errors[:20],
            "checker_cmd": f"/venv/bin/python -m ttsa check {pid} --tier {tier}",
            "trusted_base": ["CPython ast", "ttsa engines (self-tested by `python -m ttsa selftest`)",
                             "spec tables in ttsa/props and ttsa/specs (written from the mathematical definitions)"],
            "exhaustive": True,
        },
        "assumptions": meta.get("assumptions") or [],
        "wall_s": round(wall, 3),
        "violations": len(new_viol),
    }
    evdir = os.environ.get("TTSA_EVIDENCE_DIR", os.path.join(VERIF, "evidence"))
    os.makedirs(evdir, exist_ok=True)
    with open(os.path.join(evdir, f"{pid}.json"), "w") as f:
        json.dump(ev, f, indent=1, default=str)

    try:
        print(f"[ttsa] property={pid} tier={tier} obligations={len(decided)} discharged={len(discharged)} "
              f"violations={len(new_viol)} known={len(known_hits)} errors={len(errs) + len(errors)} "
              f"info={sum(1 for o in obs if o.status == INFO)} wall={wall:.2f}s")
        for r in sorted(counts):
            print(f"  rule {r}: {counts[r]} instance(s)")
        for a, b in sorted((meta.get("renamed_helpers") or {}).items()):
            print(f"  note: helper `{a}` of the pinned tree is called `{b}` in the analysed tree (same fingerprint); reports use the pinned name")
        for ln in lines:
            print(ln)
    except BrokenPipeError:
        pass
    return code
