"""ZERO-NORM: norms that scale the running AMEn quantities are sanitised before they are stored in the norm trackers.

The sweeps keep `normx`, `normA`, `normb` (initialised with ones) and later divide by them / take their logarithm
(`nrmsc = nrmsc * normb / (normA * normx)`, `exp(sum(log(normx))/d)`).  A zero iterate or a vanishing interface makes a norm 0;
every value multiplied into / stored in a tracker must therefore come from a norm that was replaced by a positive constant when
it is not positive - either `n = n if n > 0 else 1.0` or `if n > 0: ... else: n = 1.0` *before* the store.  The rule is decided
per store site on the statement list that contains it (the idioms the repository uses); anything else is reported.

ARNOLDI-SEED: in restarted GMRES the least-squares right-hand side is beta*e1 with beta the norm of the very residual that seeds
the Krylov basis (Q[:, 0] = r / beta).  The scalar dividing the seed and the scalar multiplying e1 must be the same variable."""
from __future__ import annotations

import ast

from .model import Model, Func, norm, call_args, own_returns, own_walk
from .report import Ob, OK, VIOLATED, ERROR, INFO


def _is_norm_call(e):
    """tn.linalg.norm(X) / tn.norm(X), or the method spelling X.norm()"""
    if not isinstance(e, ast.Call):
        return False
    t = norm(e.func).replace(" ", "")
    if t.endswith("linalg.norm") or t in ("tn.norm", "torch.norm"):
        return True
    return isinstance(e.func, ast.Attribute) and e.func.attr == "norm" and not e.args and not e.keywords


def _norm_operand(e):
    """the expression whose norm a norm call takes (function or method spelling)"""
    if e.args:
        return e.args[0]
    return e.func.value if isinstance(e.func, ast.Attribute) else None


def _trackers(f: Func):
    """names initialised by np.ones(...) / ones and later used under a division or logarithm"""
    out = set()
    for n in ast.walk(f.node):
        if isinstance(n, ast.Assign) and len(n.targets) == 1 and isinstance(n.targets[0], ast.Name) and isinstance(n.value, ast.Call) \
                and norm(n.value.func).endswith(".ones"):
            out.add(n.targets[0].id)
    used = set()
    for n in ast.walk(f.node):
        if isinstance(n, ast.BinOp) and isinstance(n.op, ast.Div):
            used |= {x.value.id for x in ast.walk(n.right) if isinstance(x, ast.Subscript) and isinstance(x.value, ast.Name)}
            used |= {x.id for x in ast.walk(n.right) if isinstance(x, ast.Name)}
        if isinstance(n, ast.Call) and norm(n.func).endswith(".log"):
            used |= {x.id for x in ast.walk(n) if isinstance(x, ast.Name)}
    return out & used


def _blocks(node):
    for n in ast.walk(node):
        for fld in ("body", "orelse", "finalbody"):
            b = getattr(n, fld, None)
            if isinstance(b, list) and b and isinstance(b[0], ast.stmt):
                yield b


def _positive_const(e):
    return isinstance(e, ast.Constant) and isinstance(e.value, (int, float)) and e.value > 0


def _positivity_test(test, var):
    """True: the test holds when `var` is positive (var > 0, 0 < var); False: it holds when it is not (not var > 0, var <= 0, var == 0);
    None: not a test of the sign of `var`"""
    if isinstance(test, ast.UnaryOp) and isinstance(test.op, ast.Not):
        inner = _positivity_test(test.operand, var)
        return None if inner is None else (not inner)
    if not (isinstance(test, ast.Compare) and len(test.ops) == 1):
        return None
    l, op, r = test.left, test.ops[0], test.comparators[0]
    zero = lambda e: isinstance(e, ast.Constant) and not isinstance(e.value, bool) and e.value == 0
    if norm(l) == var and zero(r):
        return True if isinstance(op, ast.Gt) else False if isinstance(op, (ast.LtE, ast.Eq)) else None
    if norm(r) == var and zero(l):
        return True if isinstance(op, ast.Lt) else False if isinstance(op, (ast.GtE, ast.Eq)) else None
    return None


def _sanitised(block, idx, var):
    """is `var` known positive at block[idx]?  scan backwards to its norm definition"""
    for j in range(idx - 1, -1, -1):
        s = block[j]
        # n = n if n > 0 else 1.0
        if isinstance(s, ast.Assign) and len(s.targets) == 1 and isinstance(s.targets[0], ast.Name) and s.targets[0].id == var:
            v = s.value
            if isinstance(v, ast.IfExp) and isinstance(v.test, ast.Compare) and isinstance(v.test.ops[0], ast.Gt) and isinstance(v.body, ast.Name) \
                    and norm(v.test.left) == v.body.id and _positive_const(v.orelse) and isinstance(v.test.comparators[0], ast.Constant) \
                    and v.test.comparators[0].value == 0:
                return True      # n = m if m > 0 else 1.0 (m may be n itself)
            if _positive_const(v):
                return True
            if isinstance(v, ast.Name) and v.id != var:
                return _sanitised(block, j, v.id)      # a plain copy `n = m`: positive when m is
            return False        # re-defined (by the norm itself or something else) without sanitising
        # if n > 0: ... else: n = 1.0
        pol = _positivity_test(s.test, var) if isinstance(s, ast.If) else None
        if pol is not None:
            pos, nonpos = (s.body, s.orelse) if pol else (s.orelse, s.body)
            assigns_pos = any(isinstance(x, ast.Assign) and norm(x.targets[0]) == var and _positive_const(x.value) for x in nonpos)
            redefines = any(isinstance(x, (ast.Assign, ast.AugAssign)) and norm(getattr(x, "target", None) or x.targets[0]) == var for x in pos)
            if assigns_pos and not redefines:
                return True
            return False
        if any(isinstance(x, ast.Name) and x.id == var and isinstance(x.ctx, ast.Store) for x in ast.walk(s)):
            return False
    return False


def _sanitising_helper(model: Model, f: Func, call) -> bool:
    """a repository function that returns a norm replaced by a positive constant when it is not positive"""
    if not isinstance(call, ast.Call):
        return False
    r = model.resolve(f.module, call.func)
    g = model.functions.get(r) if r else None
    if g is None or not any(_is_norm_call(n) for n in ast.walk(g.node)):
        return False
    rets = [n for n in own_returns(g.node) if n.value is not None]
    if not rets:
        return False
    for rt in rets:
        v = rt.value
        if isinstance(v, ast.IfExp) and isinstance(v.test, ast.Compare) and isinstance(v.test.ops[0], ast.Gt) and _positive_const(v.orelse):
            continue
        if _positive_const(v):
            continue
        if isinstance(v, ast.Name):
            for block in _blocks(g.node):
                if rt in block and _sanitised(block, block.index(rt), v.id):
                    break
            else:
                return False
            continue
        return False
    return True


def _tuple_helper_element(model: Model, f: Func, call, j: int, n: int):
    """element j of the n-tuple a repository helper returns: True - a norm made positive, False - a raw norm, None - not a norm"""
    r = model.resolve(f.module, call.func)
    g = model.functions.get(r) if r else None
    if g is None:
        return None
    rets = [x for x in own_returns(g.node) if isinstance(x.value, ast.Tuple) and len(x.value.elts) == n]
    if not rets or len(rets) != len([x for x in own_returns(g.node)]):
        return None
    norm_vars = {x.targets[0].id for x in ast.walk(g.node) if isinstance(x, ast.Assign) and len(x.targets) == 1 and isinstance(x.targets[0], ast.Name)
                 and _is_norm_call(x.value)}
    verdicts = []
    for rt in rets:
        v = rt.value.elts[j]
        if isinstance(v, ast.IfExp) and isinstance(v.test, ast.Compare) and isinstance(v.test.ops[0], ast.Gt) and _positive_const(v.orelse):
            verdicts.append(True)
        elif _positive_const(v):
            verdicts.append(True)
        elif isinstance(v, ast.Name) and v.id in norm_vars:
            ok = False
            for block in _blocks(g.node):
                if rt in block and _sanitised(block, block.index(rt), v.id):
                    ok = True
            verdicts.append(ok)
        elif _is_norm_call(v):
            verdicts.append(False)
        else:
            return None
    return all(verdicts)


def _helper_defined(model, f, block, idx, var):
    """the last definition of var before block[idx] is a call of a sanitising helper"""
    for j in range(idx - 1, -1, -1):
        s = block[j]
        if isinstance(s, ast.Assign) and len(s.targets) == 1 and isinstance(s.targets[0], ast.Name) and s.targets[0].id == var:
            return _sanitising_helper(model, f, s.value)
        if any(isinstance(x, ast.Name) and x.id == var and isinstance(x.ctx, ast.Store) for x in ast.walk(s)):
            return False
    return False


def _view(model: Model, short: str) -> Func:
    """the function with its small private helpers read in place (norm sanitising, unit interfaces moved into helpers)"""
    from .inline import inlined
    return inlined(model, model.func(short))


def rule_zero_norm(model: Model, short: str):
    f = _view(model, short)
    obs = []
    tr = _trackers(f)
    if not tr:
        return [Ob("ZERO-NORM", f"{short}:ZERO-NORM:trackers", ERROR, model.where(f), short, "norm trackers (np.ones arrays divided by / logged later) not found")]
    norm_vars = {n.targets[0].id for n in ast.walk(f.node) if isinstance(n, ast.Assign) and len(n.targets) == 1 and isinstance(n.targets[0], ast.Name)
                 and _is_norm_call(n.value)}
    helper_vars = {n.targets[0].id for n in ast.walk(f.node) if isinstance(n, ast.Assign) and len(n.targets) == 1 and isinstance(n.targets[0], ast.Name)
                   and _sanitising_helper(model, f, n.value)}
    norm_vars |= helper_vars
    for _ in range(3):      # plain copies of a norm are norms
        norm_vars |= {n.targets[0].id for n in ast.walk(f.node) if isinstance(n, ast.Assign) and len(n.targets) == 1 and isinstance(n.targets[0], ast.Name)
                      and ((isinstance(n.value, ast.Name) and n.value.id in norm_vars)
                           or (isinstance(n.value, ast.IfExp) and isinstance(n.value.body, ast.Name) and n.value.body.id in norm_vars))}
    seen = {}
    for block in _blocks(f.node):
        for i, s in enumerate(block):
            tgt = val = None
            if isinstance(s, ast.Assign) and len(s.targets) == 1:
                tgt, val = s.targets[0], s.value
            elif isinstance(s, ast.AugAssign):
                tgt, val = s.target, s.value
            pairs = [(tgt, val)]
            if isinstance(tgt, ast.Tuple) and isinstance(val, ast.Tuple) and len(tgt.elts) == len(val.elts):
                pairs = list(zip(tgt.elts, val.elts))      # X[k], tracker[e] = X[k] / n, n : element-wise stores
            for tgt, val in pairs:
                obs += _zero_norm_store(model, f, short, tr, norm_vars, seen, block, i, s, tgt, val)
    return obs


def _zero_norm_store(model, f, short, tr, norm_vars, seen, block, i, s, tgt, val):
    obs = []
    if True:
        if True:
            if isinstance(tgt, ast.Tuple) and isinstance(val, ast.Call):
                # X, tracker[e] = helper(...): the helper hands the norm back as one element of its result
                for j, te in enumerate(tgt.elts):
                    if isinstance(te, ast.Subscript) and isinstance(te.value, ast.Name) and te.value.id in tr:
                        verdict = _tuple_helper_element(model, f, val, j, len(tgt.elts))
                        if verdict is None:
                            continue
                        text = norm(s)
                        n = seen.get(text, 0)
                        seen[text] = n + 1
                        k = f"{short}:ZERO-NORM:{text}:{n}"
                        if verdict:
                            obs.append(Ob("ZERO-NORM", k, OK, model.where(f, s), text, "the helper replaces a norm that is not positive by a positive constant before returning it"))
                        else:
                            obs.append(Ob("ZERO-NORM", k, VIOLATED, model.where(f, s), text,
                                          f"{short}: `{text}` stores a norm returned by `{norm(val.func)}` in the tracker `{te.value.id}`, and that helper does not "
                                          f"replace a zero norm by a positive constant; a zero iterate / interface makes the tracker 0, and the later division "
                                          f"by it (nrmsc) / its logarithm gives inf or nan"))
                return obs
            if tgt is None or not (isinstance(tgt, ast.Subscript) and isinstance(tgt.value, ast.Name) and tgt.value.id in tr):
                return obs
            used = [x.id for x in ast.walk(val) if isinstance(x, ast.Name) and x.id in norm_vars]
            if not used:
                return obs
            text = norm(s)
            n = seen.get(text, 0)
            seen[text] = n + 1
            k = f"{short}:ZERO-NORM:{text}:{n}"
            bad = [v for v in used if not (_sanitised(block, i, v) or _helper_defined(model, f, block, i, v))]
            if bad:
                obs.append(Ob("ZERO-NORM", k, VIOLATED, model.where(f, s), text,
                              f"{short}: `{text}` stores the norm `{bad[0]}` in the tracker `{tgt.value.id}` without replacing a zero norm by a positive "
                              f"constant first; a zero iterate / interface (zero initial guess, zero right-hand side block) makes the tracker 0, and the "
                              f"later division by it (nrmsc) / its logarithm gives inf or nan"))
            else:
                obs.append(Ob("ZERO-NORM", k, OK, model.where(f, s), text, f"`{used[0]}` is replaced by a positive constant when it is not positive before the store"))
    return obs


def _is_unit_vector(fn, name):
    zeros = any(isinstance(n, ast.Assign) and isinstance(n.targets[0], ast.Name) and n.targets[0].id == name and isinstance(n.value, ast.Call)
                and norm(n.value.func).endswith("zeros") for n in ast.walk(fn))
    one = any(isinstance(n, ast.Assign) and isinstance(n.targets[0], ast.Subscript) and isinstance(n.targets[0].value, ast.Name)
              and n.targets[0].value.id == name and norm(n.targets[0].slice) == "0" and isinstance(n.value, ast.Constant) and n.value.value == 1
              for n in ast.walk(fn))
    return zeros and one


def rule_arnoldi_seed(model: Model):
    f = model.func("_iterative_solvers.gmres")
    seed = scale = None
    for n in ast.walk(f.node):
        if isinstance(n, ast.Assign) and len(n.targets) == 1:
            t = n.targets[0]
            if isinstance(t, ast.Subscript) and isinstance(n.value, ast.BinOp) and isinstance(n.value.op, ast.Div) and norm(t).replace(" ", "").endswith("[:,0]"):
                seed = (n, n.value.right, n.value.left)
            if isinstance(t, ast.Name) and isinstance(n.value, ast.BinOp) and isinstance(n.value.op, ast.Mult):
                # <scalar> * <unit vector>: the unit vector is a zeros(...) vector whose entry 0 is set to 1
                for vec, other in ((n.value.left, n.value.right), (n.value.right, n.value.left)):
                    if isinstance(vec, ast.Name) and _is_unit_vector(f.node, vec.id):
                        scale = (n, other)
    k = "_iterative_solvers.gmres:ARNOLDI-SEED"
    if seed is None or scale is None:
        return [Ob("ARNOLDI-SEED", k, ERROR, model.where(f), "Q[:, 0] = r / beta ; beta * e1", "seed of the Krylov basis / least-squares right-hand side not recognised")]
    same = norm(seed[1]) == norm(scale[1])
    # the divisor must be the norm of the seeded vector
    defs = [n for n in ast.walk(f.node) if isinstance(n, ast.Assign) and norm(n.targets[0]) == norm(seed[1]) and _is_norm_call(n.value)]
    base = norm(seed[2]).split("[")[0]
    of_seed = bool(defs) and all(call_args(d.value, "norm") and norm(call_args(d.value, "norm")[0]) == base for d in defs)
    # the seeded vector is the residual of the initial guess: b - A x0 (gmres_restart re-enters with the previous iterate as x0)
    params = f.params()
    seed_name = base
    rdefs = [n for n in ast.walk(f.node) if isinstance(n, ast.Assign) and isinstance(n.targets[0], ast.Name) and n.targets[0].id == seed_name]
    res_ok = False
    for d in rdefs:
        names = {x.id for x in ast.walk(d.value) if isinstance(x, ast.Name)}
        mv = [c for c in ast.walk(d.value) if isinstance(c, ast.Call) and isinstance(c.func, ast.Attribute) and c.func.attr == "matvec" and c.args
              and isinstance(c.args[0], ast.Name) and c.args[0].id in params]
        if isinstance(d.value, ast.BinOp) and isinstance(d.value.op, ast.Sub) and mv and (names & set(params)) - {mv[0].args[0].id, norm(mv[0].func.value)}:
            res_ok = True
    extra = []
    if rdefs and not res_ok:
        extra.append(Ob("ARNOLDI-SEED", k + ":residual", VIOLATED, model.where(f, rdefs[0]), norm(rdefs[0]),
                        f"gmres seeds the Krylov space with `{norm(rdefs[0])}`; it must be the residual b - A x0 of the initial guess it is given: "
                        "gmres_restart re-enters with the previous iterate as x0, so after a restart every cycle adds the same correction again"))
    elif rdefs:
        extra.append(Ob("ARNOLDI-SEED", k + ":residual", OK, model.where(f, rdefs[0]), norm(rdefs[0]), "the seed is the residual of the initial guess"))
    ok = same and of_seed
    return extra + [Ob("ARNOLDI-SEED", k, OK if ok else VIOLATED, model.where(f, scale[0]), f"{norm(seed[0])} ; {norm(scale[0])}",
               "the basis is seeded with r/||r|| and the least-squares right-hand side is ||r|| e1" if ok else
               f"gmres seeds the Krylov basis with `{norm(seed[0])}` but builds the least-squares right-hand side as `{norm(scale[0])}`: the Arnoldi "
               "relation r0 = beta*q1 needs the same scalar, the norm of the seeded residual; after a restart (r != b) the correction is scaled wrongly")]


def rule_enrich_width(model: Model, short: str):
    """ENRICH-WIDTH (AMEn rank enrichment): after `u, R = QR(cat((u, reshape(B, [u.shape[0], -1])), 1))` the other factor is padded with
    zero columns and multiplied by R^T; the number of zero columns must be the number of columns the block B contributes, i.e. the size of
    B's last axis.  `B.shape[last]` discharges it identically; a rank-list entry does only if that entry is not re-assigned between the
    statement that builds B and the read (the residual rank rz[k+1] is updated in between: the block still has the old width)."""
    f = model.func(short)
    obs = []
    for n in ast.walk(f.node):
        if not (isinstance(n, ast.Assign) and isinstance(n.targets[0], ast.Tuple) and isinstance(n.value, ast.Call) and norm(n.value.func).rsplit(".", 1)[-1] == "QR"
                and n.value.args):
            continue
        cat = n.value.args[0]
        if not (isinstance(cat, ast.Call) and norm(cat.func).rsplit(".", 1)[-1] in ("cat", "concat", "concatenate", "hstack") and cat.args and isinstance(cat.args[0], (ast.Tuple, ast.List))):
            continue
        blocks = [x for x in cat.args[0].elts if isinstance(x, ast.Call) and call_args(x, "reshape") and isinstance(call_args(x, "reshape")[0], ast.Name)]
        if not blocks:
            continue
        B = call_args(blocks[0], "reshape")[0].id
        bdef = max((m for m in ast.walk(f.node) if isinstance(m, ast.Assign) and isinstance(m.targets[0], ast.Name) and m.targets[0].id == B and m.lineno < n.lineno),
                   key=lambda m: m.lineno, default=None)
        pad_names = {x.id for z in ast.walk(f.node) if isinstance(z, ast.Call) and norm(z.func).endswith("zeros") and z.args and z.lineno > n.lineno
                     for x in ast.walk(z.args[0]) if isinstance(x, ast.Name)}
        width = min((m for m in ast.walk(f.node) if isinstance(m, ast.Assign) and isinstance(m.targets[0], ast.Name) and m.targets[0].id in pad_names
                     and m.lineno > n.lineno), key=lambda m: m.lineno, default=None)
        k = f"{short}:ENRICH-WIDTH:{len(obs)}"
        if width is None or bdef is None:
            obs.append(Ob("ENRICH-WIDTH", k, ERROR, model.where(f, n), norm(n)[:90], "padding width of the enrichment not recognised"))
            continue
        v = width.value
        txt = norm(v).replace(" ", "")
        if txt in (f"{B}.shape[2]", f"{B}.shape[-1]", f"{B}.shape[3]", f"{B}.size(-1)"):
            obs.append(Ob("ENRICH-WIDTH", k, OK, model.where(f, width), norm(width), f"the padding has as many columns as the enrichment block `{B}`"))
        elif isinstance(v, ast.Subscript) and isinstance(v.value, ast.Name):
            stale = [m for m in ast.walk(f.node) if isinstance(m, ast.Assign) and isinstance(m.targets[0], ast.Subscript) and norm(m.targets[0]) == norm(v)
                     and bdef.lineno > m.lineno]
            # stores to the same entry inside the same loop body *before* the block is built change the entry, but the block's width was
            # fixed by interfaces computed earlier (previous half-sweep): compare with the sizes the block was built from
            same_loop_store = [m for m in ast.walk(f.node) if isinstance(m, ast.Assign) and isinstance(m.targets[0], ast.Subscript) and norm(m.targets[0]) == norm(v)
                               and m.lineno < width.lineno and any(m in list(ast.walk(lp)) and width in list(ast.walk(lp)) for lp in ast.walk(f.node) if isinstance(lp, ast.For))]
            if same_loop_store:
                obs.append(Ob("ENRICH-WIDTH", k, VIOLATED, model.where(f, width), norm(width),
                              f"{short}: the zero padding takes its width from `{norm(v)}`, which is re-assigned earlier in the same step "
                              f"(`{norm(same_loop_store[-1])[:60]}`), while the enrichment block `{B}` still has the width of the interface computed in the previous "
                              f"half-sweep; use `{B}.shape[-1]`. Whenever the update changes the rank (small leading modes) the product with R^T has mismatching shapes"))
            else:
                obs.append(Ob("ENRICH-WIDTH", k, OK, model.where(f, width), norm(width), "rank-list entry not re-assigned before the read"))
        else:
            obs.append(Ob("ENRICH-WIDTH", k, ERROR, model.where(f, width), norm(width), "padding width expression not in a recognised form"))
    return obs


# --------------------------------------------------------------------------- SCALE-FREE

def rule_scale_free(model: Model, short: str):
    """A norm of the data (an iterate, an interface, a residual) is compared with zero or with another data-dependent quantity, never with
    a fixed non-zero number: the operands may have any magnitude (x*y of two tensors of norm 1e-10 has norm 1e-20), so `norm > 1e-14` treats
    a perfectly valid small tensor as zero.  One obligation per comparison in which a norm-defined local takes part."""
    f = _view(model, short)
    obs = []
    norm_vars = set()
    for n in ast.walk(f.node):
        if isinstance(n, ast.Assign) and len(n.targets) == 1 and isinstance(n.targets[0], ast.Name) and _is_norm_call(n.value):
            norm_vars.add(n.targets[0].id)

    def is_norm(e):
        return (isinstance(e, ast.Name) and e.id in norm_vars) or _is_norm_call(e)

    def number(e):
        if isinstance(e, ast.UnaryOp) and isinstance(e.op, (ast.USub, ast.UAdd)):
            e = e.operand
        return e.value if isinstance(e, ast.Constant) and isinstance(e.value, (int, float)) and not isinstance(e.value, bool) else None
    a_ = f.node.args
    params = {x.arg for x in a_.posonlyargs + a_.args + a_.kwonlyargs}
    stored = {x.id for x in ast.walk(f.node) if isinstance(x, ast.Name) and isinstance(x.ctx, ast.Store)}
    # tolerances: parameters that are only ever read, and that are compared somewhere with a quotient of two norms (a relative quantity)
    rel_vars = {x.targets[0].id for x in ast.walk(f.node) if isinstance(x, ast.Assign) and len(x.targets) == 1 and isinstance(x.targets[0], ast.Name)
                and isinstance(x.value, ast.BinOp) and isinstance(x.value.op, ast.Div) and is_norm(x.value.left) and is_norm(x.value.right)}
    tolerances = set()
    for n in ast.walk(f.node):
        if isinstance(n, ast.Compare) and len(n.ops) == 1:
            for a, b in ((n.left, n.comparators[0]), (n.comparators[0], n.left)):
                if isinstance(a, ast.Name) and a.id in rel_vars and isinstance(b, ast.Name) and b.id in params and b.id not in stored:
                    tolerances.add(b.id)
    seen = {}
    for n in ast.walk(f.node):
        if not (isinstance(n, ast.Compare) and len(n.ops) == 1):
            continue
        l, r = n.left, n.comparators[0]
        for a, b in ((l, r), (r, l)):
            if is_norm(a) and isinstance(b, ast.Name) and b.id in tolerances:
                text = norm(n)
                c = seen.get(text, 0)
                seen[text] = c + 1
                obs.append(Ob("SCALE-FREE", f"{short}:SCALE-FREE:{text}:{c}", VIOLATED, model.where(f, n), text,
                              f"{short}: `{text}` compares the absolute norm `{norm(a)}` with `{b.id}`, which elsewhere in this function bounds a *relative* "
                              "residual (a quotient of two norms): for right-hand sides of small norm the test is met at once and the solver returns without "
                              "improving its iterate"))
            if is_norm(a) and number(b) is not None:
                text = norm(n)
                c = seen.get(text, 0)
                seen[text] = c + 1
                k = f"{short}:SCALE-FREE:{text}:{c}"
                if number(b) == 0:
                    obs.append(Ob("SCALE-FREE", k, OK, model.where(f, n), text, "a norm is only tested against zero"))
                else:
                    obs.append(Ob("SCALE-FREE", k, VIOLATED, model.where(f, n), text,
                                  f"{short}: `{text}` compares the norm `{norm(a)}` of run-time data with the fixed number {number(b)!r}: operands of small "
                                  "magnitude (all entries scaled by 1e-10, a valid input) fall below it and are treated as zero - the convergence measure is "
                                  "switched off / the scaling is skipped and the result is not within eps of the exact one"))
    return obs


# --------------------------------------------------------------------------- scale degrees (homogeneity)

def rule_homogeneous(model: Model, short: str):
    """SCALE-FREE, general form (added after seeds S4-C12-2 and S4-C11-1).  Every scalar gets a *scale degree*: a Frobenius norm of run-time data
    has degree 1 (it scales with the operands), tolerances and other numeric parameters, machine constants and literals have degree 0, products
    add and quotients subtract degrees, sqrt halves them.  A comparison, `max` / `min`, sum or difference must join equal degrees (the literal 0
    joins anything): `norm(r) <= eps`, `max(norm(W) * eps, finfo.eps)` compare an absolute quantity with a relative one, so the routine behaves
    differently for operands scaled by 1e-10 - which the properties' quantifiers include.  Only expressions whose degree is *known* on both sides
    are judged; one obligation per joined pair with a data-scaled side."""
    from fractions import Fraction
    f = _view(model, short)
    fn = f.node
    a_ = fn.args
    pos = a_.posonlyargs + a_.args
    numeric_params = set()
    for p_, d_ in zip(pos[len(pos) - len(a_.defaults):], a_.defaults):
        v = d_.operand if isinstance(d_, ast.UnaryOp) else d_
        if isinstance(v, ast.Constant) and isinstance(v.value, (int, float)) and not isinstance(v.value, bool):
            numeric_params.add(p_.arg)
    defs = {}
    for n in ast.walk(fn):
        if isinstance(n, ast.Assign) and len(n.targets) == 1 and isinstance(n.targets[0], ast.Name):
            defs.setdefault(n.targets[0].id, []).append(n.value)
        elif isinstance(n, ast.AugAssign) and isinstance(n.target, ast.Name):
            defs.setdefault(n.target.id, []).append(None)       # accumulations: not judged
    ZERO_ = "zero"
    memo = {}

    def deg(e, depth=0):
        if depth > 6:
            return None
        if isinstance(e, ast.Constant):
            if isinstance(e.value, (int, float)) and not isinstance(e.value, bool):
                return ZERO_ if e.value == 0 else Fraction(0)
            return None
        if isinstance(e, ast.UnaryOp) and isinstance(e.op, (ast.USub, ast.UAdd)):
            return deg(e.operand, depth + 1)
        if isinstance(e, ast.Call):
            if _is_norm_call(e):
                return Fraction(1)
            t = norm(e.func).replace(" ", "")
            last = t.rsplit(".", 1)[-1]
            if last in ("sqrt",) and len(e.args) == 1:
                d = deg(e.args[0], depth + 1)
                return d if d in (None, ZERO_) else d / 2
            if last in ("float", "abs", "int") and len(e.args) == 1:
                return deg(e.args[0], depth + 1)
            if last == "len" and isinstance(e.func, ast.Name):
                return Fraction(0)          # a count
            if last in ("cpu", "numpy", "item", "clone", "detach", "double", "to") and isinstance(e.func, ast.Attribute):
                return deg(e.func.value, depth + 1)
            if last in ("max", "min") and isinstance(e.func, ast.Name) and len(e.args) >= 2:
                ds = [deg(x, depth + 1) for x in e.args]
                known = [d for d in ds if d not in (None, ZERO_)]
                return known[0] if known and all(d == known[0] for d in known) and None not in ds else None
            if last == "finfo":
                return None
            return None
        if isinstance(e, ast.Attribute):
            if e.attr in ("eps", "tiny", "resolution") and isinstance(e.value, ast.Call) and norm(e.value.func).endswith("finfo"):
                return Fraction(0)          # a machine constant
            return None
        if isinstance(e, ast.Name):
            if e.id in numeric_params:
                return Fraction(0)
            if e.id in memo:
                return memo[e.id]
            memo[e.id] = None
            ds = [deg(v, depth + 1) if v is not None else None for v in defs.get(e.id, [])]
            known = [d for d in ds if d != ZERO_]
            out = None
            if ds and None not in ds:
                out = ZERO_ if not known else (known[0] if all(d == known[0] for d in known) else None)
            memo[e.id] = out
            return out
        if isinstance(e, ast.BinOp):
            l, r = deg(e.left, depth + 1), deg(e.right, depth + 1)
            if isinstance(e.op, (ast.Mult, ast.Div)):
                if l == ZERO_ or (r == ZERO_ and isinstance(e.op, ast.Mult)):
                    return ZERO_
                if l is None or r is None or r == ZERO_:
                    return None
                return l + r if isinstance(e.op, ast.Mult) else l - r
            if isinstance(e.op, ast.Pow) and l == 0:
                return Fraction(0)          # a pure number to any power
            if isinstance(e.op, ast.Pow) and isinstance(e.right, ast.Constant) and isinstance(e.right.value, (int, float)):
                return l if l in (None, ZERO_) else l * Fraction(e.right.value).limit_denominator(8)
            if isinstance(e.op, (ast.Add, ast.Sub)):
                if l == ZERO_:
                    return r
                if r == ZERO_:
                    return l
                return l if (l is not None and l == r) else None
        if isinstance(e, ast.IfExp):
            a, b = deg(e.body, depth + 1), deg(e.orelse, depth + 1)
            known = [d for d in (a, b) if d != ZERO_]
            if None in (a, b):
                return None
            return ZERO_ if not known else (known[0] if all(d == known[0] for d in known) else None)
        return None

    obs = []
    seen = {}

    def judge(node, parts, what):
        ds = [(p, deg(p)) for p in parts]
        known = [(p, d) for p, d in ds if d not in (None, ZERO_)]
        if len(known) < 2 or not any(d != 0 for _, d in known):
            return
        text = norm(node)[:110]
        c = seen.get(text, 0)
        seen[text] = c + 1
        k = f"{short}:SCALE-FREE:degree:{text}:{c}"
        same = all(d == known[0][1] for _, d in known)
        if same:
            obs.append(Ob("SCALE-FREE", k, OK, model.where(f, node), text, f"{what} of quantities of the same scale degree ({known[0][1]})"))
        else:
            show = ", ".join(f"`{norm(p)[:40]}` (degree {d})" for p, d in known)
            obs.append(Ob("SCALE-FREE", k, VIOLATED, model.where(f, node), text,
                          f"{short}: `{text}` joins quantities of different scale: {show}. A norm of run-time data (degree 1) scales with the operands, a "
                          "tolerance or machine constant (degree 0) does not: for operands scaled by 1e-10 - inside the property's quantifier - the "
                          f"{what} tips the other way (convergence declared at once / truncation far above the relative tolerance)"))
    for n in ast.walk(fn):
        if isinstance(n, ast.Compare) and len(n.ops) == 1 and isinstance(n.ops[0], (ast.Lt, ast.LtE, ast.Gt, ast.GtE, ast.Eq, ast.NotEq)):
            judge(n, [n.left, n.comparators[0]], "comparison")
        elif isinstance(n, ast.Call) and isinstance(n.func, ast.Name) and n.func.id in ("max", "min") and len(n.args) >= 2:
            judge(n, list(n.args), n.func.id)
        elif isinstance(n, ast.BinOp) and isinstance(n.op, (ast.Add, ast.Sub)):
            judge(n, [n.left, n.right], "sum")
    return obs


# --------------------------------------------------------------------------- TRAIN-INIT (added after seed S5-C13-2)

def rule_train_init(model: Model, fshort: str, rule="TRAIN-INIT"):
    """The sweeps type every core of a train by its rank list: `X[k] = reshape(.., [R[k], n, R[k+1]])`.  Wherever the core list X of such a
    train is *taken over from an object* (`X = g.cores[.copy()]`, the initial guess), the rank list R that types it has to be taken from the
    same object in the same branch (`R = g.R[.copy()]`) - otherwise the first reshape of the sweep uses ranks that do not describe the cores
    (a RuntimeError, or silently re-grouped data when the element counts happen to agree).  One obligation per take-over."""
    import ast
    from .model import norm, call_args
    f = _view(model, fshort)
    trains = {}
    for n in ast.walk(f.node):
        if isinstance(n, ast.Assign) and len(n.targets) == 1 and isinstance(n.targets[0], ast.Subscript) and isinstance(n.targets[0].value, ast.Name) \
                and isinstance(n.value, ast.Call) and call_args(n.value, "reshape") and len(call_args(n.value, "reshape")) == 2 \
                and isinstance(call_args(n.value, "reshape")[1], ast.List):
            elts = call_args(n.value, "reshape")[1].elts
            if len(elts) >= 3 and isinstance(elts[0], ast.Subscript) and isinstance(elts[-1], ast.Subscript) and isinstance(elts[0].value, ast.Name) \
                    and isinstance(elts[-1].value, ast.Name) and elts[0].value.id == elts[-1].value.id:
                trains.setdefault(n.targets[0].value.id, elts[0].value.id)
    obs = []

    def source(v, attr):
        """the object name g when v is g.<attr>, g.<attr>.copy(), list(g.<attr>), g.<attr>[:] ; else None"""
        while True:
            if isinstance(v, ast.Call) and isinstance(v.func, ast.Attribute) and v.func.attr in ("copy",) and not v.args:
                v = v.func.value
            elif isinstance(v, ast.Call) and isinstance(v.func, ast.Name) and v.func.id == "list" and len(v.args) == 1:
                v = v.args[0]
            elif isinstance(v, ast.Subscript) and isinstance(v.slice, ast.Slice) and v.slice.lower is None and v.slice.upper is None:
                v = v.value
            else:
                break
        if isinstance(v, ast.Attribute) and v.attr == attr and isinstance(v.value, ast.Name):
            return v.value.id
        return None

    def pairs(stmt):
        """[(target name, value)] of a (tuple) assignment"""
        if not isinstance(stmt, ast.Assign) or len(stmt.targets) != 1:
            return []
        t, v = stmt.targets[0], stmt.value
        if isinstance(t, ast.Name):
            return [(t.id, v)]
        if isinstance(t, (ast.Tuple, ast.List)) and isinstance(v, (ast.Tuple, ast.List)) and len(t.elts) == len(v.elts):
            return [(x.id, y) for x, y in zip(t.elts, v.elts) if isinstance(x, ast.Name)]
        return []

    def blocks(node):
        for n in ast.walk(node):
            for fld in ("body", "orelse", "finalbody"):
                b = getattr(n, fld, None)
                if isinstance(b, list) and b and isinstance(b[0], ast.stmt):
                    yield b
    for blk in blocks(f.node):
        for st in blk:
            for nm, v in pairs(st):
                if nm in trains:
                    g = source(v, "cores")
                    if g is None:
                        continue
                    # only objects that come from outside: a parameter, or a local that is a plain copy of one (`x = x0`)
                    origin = g
                    for _ in range(3):
                        defs = [a.value for a in ast.walk(f.node) if isinstance(a, ast.Assign) and len(a.targets) == 1 and isinstance(a.targets[0], ast.Name)
                                and a.targets[0].id == origin]
                        names = [d.id for d in defs if isinstance(d, ast.Name)]
                        if origin in f.params() or not names:
                            break
                        origin = next((x for x in names if x in f.params()), names[0])
                    if origin not in f.params():
                        continue
                    R = trains[nm]
                    got = [source(v2, "R") for s2 in blk for n2, v2 in pairs(s2) if n2 == R]
                    k = f"{fshort}:{rule}:{nm}<-{g}.cores"
                    if g in got:
                        obs.append(Ob(rule, k, OK, model.where(f, st), norm(st)[:80], f"cores and ranks of the train ({nm}, {R}) are both taken from `{g}`"))
                    else:
                        obs.append(Ob(rule, k, VIOLATED, model.where(f, st), norm(st)[:80],
                                      f"the cores `{nm}` are taken over from `{g}`, but the rank list `{R}` that types them in the sweeps "
                                      f"(`{nm}[k] = reshape(.., [{R}[k], n, {R}[k+1]])`) is not taken from `{g}.R` in the same branch"
                                      + (f" (it is bound from {[x for x in got if x]})" if any(got) else "")
                                      + f": with a guess whose ranks differ from the default the first reshape of the sweep fails or re-groups the data"))
    return obs


# --------------------------------------------------------------------------- NORM-DIV (added after seed S5-C07-2)

def rule_norm_division(model: Model, fshort: str, rule="NORM-DIV", func=None):
    """A value that is divided by a norm (`n = tn.linalg.norm(X)` ... `Y / n`, `Y /= n`, also under `tn.log(n)`) is undefined for the zero tensor
    unless the division is guarded by a test of that norm (an enclosing `if` whose test reads it, or an earlier guard clause that leaves).
    Functions whose domain includes the zero tensor (norm, dot, sum) must not divide by an untested norm.  One obligation per division."""
    import ast
    from .model import norm
    if func is None and not model.has_func(fshort):
        return []
    f = func if func is not None else _view(model, fshort)
    norm_vars = {n.targets[0].id for n in ast.walk(f.node) if isinstance(n, ast.Assign) and len(n.targets) == 1 and isinstance(n.targets[0], ast.Name)
                 and _is_norm_call(n.value)}
    if not norm_vars:
        return []
    parents = {}
    for a in ast.walk(f.node):
        for c in ast.iter_child_nodes(a):
            parents[id(c)] = a

    def guarded(node, v):
        cur = node
        while id(cur) in parents:
            par = parents[id(cur)]
            if isinstance(par, (ast.If, ast.IfExp, ast.While)) and cur is not par.test and any(isinstance(x, ast.Name) and x.id == v for x in ast.walk(par.test)):
                return True
            for fld in ("body", "orelse"):
                blk = getattr(par, fld, None)
                if isinstance(blk, list) and cur in blk:
                    for prev in blk[:blk.index(cur)]:
                        if isinstance(prev, ast.If) and any(isinstance(x, ast.Name) and x.id == v for x in ast.walk(prev.test)) \
                                and prev.body and isinstance(prev.body[-1], (ast.Return, ast.Raise, ast.Continue, ast.Break)):
                            return True
            cur = par
        return False
    obs = []
    for n in ast.walk(f.node):
        v = None
        if isinstance(n, ast.BinOp) and isinstance(n.op, ast.Div) and isinstance(n.right, ast.Name) and n.right.id in norm_vars:
            v = n.right.id
        elif isinstance(n, ast.AugAssign) and isinstance(n.op, ast.Div) and isinstance(n.value, ast.Name) and n.value.id in norm_vars:
            v = n.value.id
        elif isinstance(n, ast.Call) and norm(n.func).rsplit(".", 1)[-1] in ("log", "log10", "log2") and n.args and isinstance(n.args[0], ast.Name) \
                and n.args[0].id in norm_vars:
            v = n.args[0].id
        if v is None:
            continue
        ok = guarded(n, v)
        k = f"{fshort}:{rule}:{norm(n)[:60]}"
        obs.append(Ob(rule, k, OK if ok else VIOLATED, model.where(f, n), norm(n)[:90],
                      f"the division by `{v}` is guarded by a test of it" if ok else
                      f"`{norm(n)[:70]}` divides by (takes the logarithm of) the norm `{v}` with no test of it on the path: for the zero tensor "
                      "the result is NaN (0/0) instead of 0"))
    return obs


# --------------------------------------------------------------------------- RESIDUAL-GAUGE (added after seed S5-C12-2)

def rule_residual_gauge(model: Model, fshort: str, rule="RESIDUAL-GAUGE"):
    """The first half sweep re-orthogonalises the random residual train core by core (`q, _ = QR(reshape(z[k], [rz[k], -1]).t())`, `rz[k] =
    q.shape[1]`) *without* carrying the R factor to the neighbour: that is only shape-consistent when no rank can shrink, i.e. when
    rz[k] <= N[k] * rz[k+1] already holds for every k.  A random train with the requested ranks does not satisfy that for small trailing
    modes; the routines establish it by `z_cores, rz = rl_orthogonal(z_cores, rz, ...)` before the sweeps.  The rule: every train whose
    cores come from `random(...)` is passed through rl_orthogonal (cores and rank list re-bound together) before the first sweep loop."""
    import ast
    from .model import norm
    f = _view(model, fshort)
    body = f.node.body
    obs = []
    # names bound (directly or via `.cores`) to a random train
    rand_objs, rand_cores = set(), {}
    for i, s in enumerate(body):
        if not (isinstance(s, ast.Assign) and len(s.targets) == 1 and isinstance(s.targets[0], ast.Name)):
            continue
        v = s.value
        def is_random(e):
            return isinstance(e, ast.Call) and norm(e.func).rsplit(".", 1)[-1] in ("random", "randn")
        if is_random(v):
            rand_objs.add(s.targets[0].id)
        src = v.value if isinstance(v, ast.Attribute) and v.attr == "cores" else None
        if src is not None and ((isinstance(src, ast.Name) and src.id in rand_objs) or is_random(src)):
            rand_cores[s.targets[0].id] = (i, s)
        elif isinstance(v, ast.ListComp) and (any(is_random(x) for x in ast.walk(v.elt))
                                              or any(isinstance(x, ast.Attribute) and x.attr == "cores" and isinstance(x.value, ast.Name) and x.value.id in rand_objs
                                                     for g in v.generators for x in ast.walk(g.iter))):
            rand_cores.setdefault(s.targets[0].id, (i, s))      # [randn(shape_k) for k ...] / [reshape(c, ..) for c in z_tt.cores]
    first_loop = min([j for j, t in enumerate(body) if isinstance(t, (ast.For, ast.While))] or [len(body)])
    for nm, (i, s) in rand_cores.items():
        if i >= first_loop:
            continue
        ok = False
        other = None
        for j in range(i + 1, first_loop):
            t = body[j]
            if isinstance(t, ast.Assign) and isinstance(t.targets[0], ast.Tuple) and len(t.targets[0].elts) == 2 and isinstance(t.value, ast.Call) \
                    and isinstance(t.targets[0].elts[0], ast.Name) and t.targets[0].elts[0].id == nm \
                    and t.value.args and isinstance(t.value.args[0], ast.Name) and t.value.args[0].id == nm:
                if (model.resolve(f.module, t.value.func) or "").endswith("_decomposition.rl_orthogonal"):
                    ok = True
                else:
                    other = t
        k = f"{fshort}:{rule}:{nm}"
        if not ok and other is not None:
            obs.append(Ob(rule, k, ERROR, model.where(f, other), norm(other)[:80],
                          f"the random train `{nm}` is re-bound together with its ranks by a routine this rule does not know: whether it establishes "
                          "rz[k] <= N[k]*rz[k+1] is not decided"))
            continue
        obs.append(Ob(rule, k, OK if ok else VIOLATED, model.where(f, s), norm(s)[:80],
                      f"the random train `{nm}` is right-orthogonalised (cores and ranks re-bound together) before the sweeps" if ok else
                      f"the random train `{nm}` enters the sweeps as drawn: the first half sweep QR-factors its cores one by one and shrinks a rank "
                      "whenever rz[k] > N[k]*rz[k+1] (small trailing modes) without carrying the R factor to the neighbouring core - the next "
                      "reshape then fails (RuntimeError for valid systems); rl_orthogonal establishes rz[k] <= N[k]*rz[k+1] beforehand"))
    return obs


# --------------------------------------------------------------------------- RETRY-LOOP (termination of a search for a non-orthogonal vector)

_BILINEAR = ("dot", "vdot", "inner", "matmul", "mm", "mv", "tensordot", "einsum")


def _bilinear_operands(e):
    """operand expressions of a bilinear form: dot(a, b), a @ b, (a * b).sum(), sum(a * b)"""
    import ast
    from .model import norm
    if isinstance(e, ast.Call):
        tail = norm(e.func).rsplit(".", 1)[-1]
        if tail in _BILINEAR:
            args = [a for a in e.args if not isinstance(a, ast.Constant)]
            if isinstance(e.func, ast.Attribute) and not norm(e.func.value) in ("tn", "torch", "np", "numpy"):
                args = [e.func.value] + args      # a.dot(b)
            return args if len(args) == 2 else None
        if tail == "sum":
            inner = e.func.value if isinstance(e.func, ast.Attribute) and norm(e.func.value) not in ("tn", "torch", "np", "numpy") else (e.args[0] if e.args else None)
            if isinstance(inner, ast.BinOp) and isinstance(inner.op, ast.Mult):
                return [inner.left, inner.right]
        if tail in ("abs", "float", "item") and (e.args or isinstance(e.func, ast.Attribute)):
            return _bilinear_operands(e.args[0] if e.args else e.func.value)
    if isinstance(e, ast.BinOp) and isinstance(e.op, ast.MatMult):
        return [e.left, e.right]
    return None


def _root_name(e):
    """the local a view expression is taken of: r.squeeze() -> r, r[:, 0] -> r, tn.conj(r) -> r"""
    import ast
    while True:
        if isinstance(e, ast.Name):
            return e.id
        if isinstance(e, ast.Call) and isinstance(e.func, ast.Attribute) and e.func.attr in ("squeeze", "flatten", "ravel", "reshape", "view", "t", "conj", "clone", "contiguous"):
            e = e.func.value if not (isinstance(e.func.value, ast.Name) and e.func.value.id in ("tn", "torch", "np")) else (e.args[0] if e.args else None)
            continue
        if isinstance(e, ast.Subscript):
            e = e.value
            continue
        if isinstance(e, ast.Attribute) and e.attr in ("T", "mT", "H"):
            e = e.value
            continue
        return None


def _zero_test_of(test, name, norm_vars):
    """True: the test holds when the vector `name` is non-zero; False: it holds when it is zero; None: not such a test.
    norm_vars: locals bound to norm(<name>)"""
    import ast
    from .model import norm
    if isinstance(test, ast.UnaryOp) and isinstance(test.op, ast.Not):
        inner = _zero_test_of(test.operand, name, norm_vars)
        return None if inner is None else (not inner)
    for v in norm_vars:
        pol = _positivity_test(test, v)
        if pol is not None:
            return pol
    if isinstance(test, ast.Compare) and len(test.ops) == 1:
        for side, other, flip in ((test.left, test.comparators[0], False), (test.comparators[0], test.left, True)):
            if _is_norm_call(side) and _norm_operand(side) is not None and _root_name(_norm_operand(side)) == name and isinstance(other, ast.Constant) and other.value == 0:
                op = test.ops[0]
                if isinstance(op, ast.Eq):
                    return False
                if isinstance(op, ast.NotEq):
                    return True
                if isinstance(op, (ast.Gt, ast.Lt)):
                    return isinstance(op, ast.Lt) if flip else isinstance(op, ast.Gt)
                if isinstance(op, (ast.LtE, ast.GtE)):
                    return not (isinstance(op, ast.GtE) if flip else isinstance(op, ast.LtE))
    if isinstance(test, ast.Call):
        tail = norm(test.func).rsplit(".", 1)[-1]
        if tail in ("any", "count_nonzero"):
            arg = test.func.value if isinstance(test.func, ast.Attribute) and norm(test.func.value) not in ("tn", "torch", "np", "numpy") else (test.args[0] if test.args else None)
            if arg is not None and _root_name(arg) == name:
                return True
    return None


def rule_retry_loop(model: Model, fshort: str, rule="RETRY-LOOP", func=None):
    """`while <bilinear>(a, v) == 0: v = <another try>` searches for a vector v that is not orthogonal to a.  When `a` is not re-bound in the
    loop, the search cannot end for a = 0 (the form vanishes for every v): the loop must be dominated by a test that `a` is non-zero whose
    other branch leaves, or carry that test in its own condition.  One obligation per such loop."""
    import ast
    from .model import norm
    if func is None and not model.has_func(fshort):
        return []
    f = func if func is not None else model.func(fshort)
    parents = {}
    for a in ast.walk(f.node):
        for c in ast.iter_child_nodes(a):
            parents[id(c)] = a
    obs = []
    for w in own_walk(f.node):
        if not isinstance(w, ast.While):
            continue
        conj = w.test.values if isinstance(w.test, ast.BoolOp) and isinstance(w.test.op, ast.And) else [w.test]
        form = None
        sure = True         # the condition certainly holds when the form vanishes
        for c in conj:
            if isinstance(c, ast.Compare) and len(c.ops) == 1 and isinstance(c.ops[0], ast.Eq):
                for side, other in ((c.left, c.comparators[0]), (c.comparators[0], c.left)):
                    if isinstance(other, ast.Constant) and other.value == 0 and not isinstance(other.value, bool):
                        ops_ = _bilinear_operands(side)
                        if ops_:
                            form = (c, ops_)
            elif isinstance(c, ast.Compare) and len(c.ops) == 1 and isinstance(c.ops[0], (ast.Lt, ast.LtE, ast.Gt, ast.GtE)):
                # |form| < tol  (tol > form): holds for a vanishing form when tol is positive
                small, tol = (c.left, c.comparators[0]) if isinstance(c.ops[0], (ast.Lt, ast.LtE)) else (c.comparators[0], c.left)
                ops_ = _bilinear_operands(small)
                if ops_:
                    form = (c, ops_)
                    sure = isinstance(tol, ast.Constant) and isinstance(tol.value, (int, float)) and not isinstance(tol.value, bool) and \
                        (tol.value > 0 or (tol.value == 0 and isinstance(c.ops[0], (ast.LtE, ast.GtE))))
        if form is None:
            continue
        stored = {x.id for s in w.body for x in ast.walk(s) if isinstance(x, ast.Name) and isinstance(x.ctx, ast.Store)}
        roots = [_root_name(o) for o in form[1]]
        inv = [r for r in roots if r is not None and r not in stored]
        k = f"{fshort}:{rule}:{norm(w.test)[:70]}"
        if not inv or len([r for r in roots if r in stored]) == 0:
            if None in roots:
                obs.append(Ob(rule, k, ERROR, model.where(f, w), norm(w.test)[:90], "operands of the bilinear form not resolved to locals"))
            continue        # both operands change (or none does: not a search)
        a = inv[0]
        norm_vars = {n.targets[0].id for n in ast.walk(f.node) if isinstance(n, ast.Assign) and len(n.targets) == 1 and isinstance(n.targets[0], ast.Name)
                     and _is_norm_call(n.value) and _norm_operand(n.value) is not None and _root_name(_norm_operand(n.value)) == a}
        verdict = None      # True guarded, False unguarded, None a test of `a` that is not understood
        # in the condition itself
        for c in conj:
            if c is not form[0] and _zero_test_of(c, a, norm_vars) is True:
                verdict = True
        # dominating guard: an earlier `if` of an enclosing block whose zero branch leaves, or an enclosing `if` whose non-zero branch holds the loop
        cur = w
        unknown = False
        while verdict is None and id(cur) in parents:
            par = parents[id(cur)]
            if isinstance(par, ast.If) and cur is not par.test:
                pol = _zero_test_of(par.test, a, norm_vars)
                if pol is not None and ((pol and cur in par.body) or (not pol and cur in par.orelse)):
                    verdict = True
                    break
            for fld in ("body", "orelse", "finalbody"):
                blk = getattr(par, fld, None)
                if isinstance(blk, list) and cur in blk:
                    for prev in reversed(blk[:blk.index(cur)]):
                        if any(isinstance(x, ast.Name) and x.id == a and isinstance(x.ctx, ast.Store) for x in ast.walk(prev)):
                            break       # `a` is (re)bound here: earlier tests speak of another value
                        if isinstance(prev, ast.If):
                            pol = _zero_test_of(prev.test, a, norm_vars)
                            zero_branch = None if pol is None else (prev.orelse if pol else prev.body)
                            if zero_branch and isinstance(zero_branch[-1], (ast.Return, ast.Raise)):
                                verdict = True
                                break
                            if pol is None and any(isinstance(x, ast.Name) and (x.id == a or x.id in norm_vars) for x in ast.walk(prev.test)):
                                unknown = True
                    if verdict:
                        break
            if isinstance(par, (ast.FunctionDef, ast.AsyncFunctionDef)):
                break
            cur = par
        if verdict:
            obs.append(Ob(rule, k, OK, model.where(f, w), norm(w.test)[:90], f"the search runs only when `{a}` is non-zero"))
        elif unknown:
            obs.append(Ob(rule, k, ERROR, model.where(f, w), norm(w.test)[:90], f"a test that reads `{a}` precedes the loop but is not one of the recognised zero tests"))
        elif not sure:
            obs.append(Ob(rule, k, ERROR, model.where(f, w), norm(w.test)[:90], f"the form is compared with a bound whose sign is not known; no test of `{a}` against zero dominates the loop"))
        else:
            obs.append(Ob(rule, k, VIOLATED, model.where(f, w), norm(w.test)[:90],
                          f"{fshort}: `while {norm(w.test)[:80]}` looks for a vector not orthogonal to `{a}`, and `{a}` is not changed by the loop: for "
                          f"`{a}` = 0 the form is zero for every candidate and the loop never ends. `{a}` is the residual of the initial guess, which is "
                          f"exactly zero whenever the guess already solves the (local) system - e.g. amen_solve(eye, ones, x0=ones, max_full=0, local_solver=2). "
                          f"No test of `{a}` against zero dominates the loop"))
    return obs


# --------------------------------------------------------------------------- QR-RANK (the bond a QR factor is re-shaped with)

def _is_transposed(e, names):
    """(root name, transposed?) of Q, Q.T, Q.t(), Q.mT, tn.t(Q), tn.transpose(Q, 0, 1); None when `e` is not a view of one of `names`"""
    if isinstance(e, ast.Name) and e.id in names:
        return e.id, False
    if isinstance(e, ast.Attribute) and e.attr in ("T", "mT", "H") and isinstance(e.value, ast.Name) and e.value.id in names:
        return e.value.id, True
    if isinstance(e, ast.Call):
        tail = norm(e.func).rsplit(".", 1)[-1]
        if tail in ("t", "transpose", "conj", "contiguous", "clone") and isinstance(e.func, ast.Attribute):
            inner = e.func.value if not (isinstance(e.func.value, ast.Name) and e.func.value.id in ("tn", "torch")) else (e.args[0] if e.args else None)
            r = _is_transposed(inner, names) if inner is not None else None
            if r is None:
                return None
            return (r[0], not r[1]) if tail in ("t", "transpose") else r
    return None


def rule_qr_rank(model: Model, fshort: str, rule="QR-RANK"):
    """`Q, R = QR(X)` gives Q with min(rows, columns) of X columns.  Where Q (or its transpose) is re-shaped into a core, the dimension that stands
    for the new bond must be -1 or a value taken from the factors' / X's shape after (or for) this factorisation; an entry of a rank list that has
    not been re-assigned from such a value is the rank *before* the factorisation, which is larger whenever X has fewer rows than columns."""
    if not model.has_func(fshort):
        return []
    f = model.func(fshort)
    obs = []
    seen = {}
    for block in _blocks(f.node):
        for i, s in enumerate(block):
            if not (isinstance(s, ast.Assign) and len(s.targets) == 1 and isinstance(s.targets[0], ast.Tuple) and len(s.targets[0].elts) == 2
                    and isinstance(s.value, ast.Call) and norm(s.value.func).rsplit(".", 1)[-1] == "QR" and s.value.args):
                continue
            qa, rb = s.targets[0].elts
            if not isinstance(qa, ast.Name) or qa.id == "_":
                continue
            facs = {qa.id} | ({rb.id} if isinstance(rb, ast.Name) and rb.id != "_" else set())
            xroot = _root_name(s.value.args[0])
            shaped = facs | ({xroot} if xroot else set())

            def derived(e, upto, depth=0):
                """True: taken from the shapes of the factors / of X; False: a list entry that is not; None: not recognised"""
                if isinstance(e, ast.Constant):
                    return True if e.value == -1 else None
                for x in ast.walk(e):
                    if isinstance(x, ast.Attribute) and x.attr == "shape" and _root_name(x.value) in shaped:
                        return True
                    if isinstance(x, ast.Call) and isinstance(x.func, ast.Attribute) and x.func.attr in ("size", "numel") and _root_name(x.func.value) in shaped:
                        return True
                if depth > 3:
                    return None
                key = norm(e).replace(" ", "")
                if isinstance(e, (ast.Name, ast.Subscript)):
                    for j in range(upto - 1, -1, -1):
                        st = block[j]
                        if isinstance(st, ast.Assign) and len(st.targets) == 1 and norm(st.targets[0]).replace(" ", "") == key:
                            return derived(st.value, j, depth + 1)
                        if isinstance(st, (ast.For, ast.While, ast.If, ast.With, ast.Try)) and any(
                                isinstance(t, (ast.Name, ast.Subscript)) and isinstance(getattr(t, "ctx", None), ast.Store) and norm(t).replace(" ", "") == key for t in ast.walk(st)):
                            return None
                    if isinstance(e, ast.Subscript) and isinstance(e.value, ast.Name):
                        return False        # an entry of a list that this block has not re-assigned: the value from before the factorisation
                return None
            for j in range(i + 1, len(block)):
                st = block[j]
                for c in ast.walk(st):
                    if not (isinstance(c, ast.Call) and norm(c.func).rsplit(".", 1)[-1] == "reshape"):
                        continue
                    if isinstance(c.func, ast.Attribute) and not (isinstance(c.func.value, ast.Name) and c.func.value.id in ("tn", "torch", "np")):
                        src, dims = c.func.value, (c.args[0].elts if len(c.args) == 1 and isinstance(c.args[0], (ast.List, ast.Tuple)) else list(c.args))
                    elif len(c.args) >= 2 and isinstance(c.args[1], (ast.List, ast.Tuple)):
                        src, dims = c.args[0], c.args[1].elts
                    else:
                        continue
                    v = _is_transposed(src, {qa.id})
                    if v is None or not dims or any(isinstance(d_, ast.Starred) for d_ in dims):
                        continue
                    dim = dims[0] if v[1] else dims[-1]
                    verdict = derived(dim, j)
                    text = norm(c)[:90]
                    n = seen.get(text, 0)
                    seen[text] = n + 1
                    k = f"{fshort}:{rule}:{text}:{n}"
                    if verdict is True:
                        obs.append(Ob(rule, k, OK, model.where(f, st), text, f"the new bond `{norm(dim)}` is taken from the factorisation"))
                    elif verdict is False:
                        obs.append(Ob(rule, k, VIOLATED, model.where(f, st), text,
                                      f"{fshort}: `{text}` re-shapes the QR factor `{qa.id}` of `{norm(s.value.args[0])[:40]}` with the bond `{norm(dim)}`, an entry of a rank "
                                      f"list that has not been re-assigned from the factor's shape: the factor has min(rows, columns) columns, which is smaller than "
                                      f"the old rank whenever the unfolding has fewer rows than columns (an initial guess of high rank, a small trailing mode after "
                                      f"the kick) - the reshape then fails"))
                    else:
                        obs.append(Ob(rule, k, INFO, model.where(f, st), text, f"the bond `{norm(dim)}` of the re-shaped factor is not traced to the factorisation (not decided)"))
                if any(isinstance(t, ast.Name) and isinstance(t.ctx, ast.Store) and t.id == qa.id for t in ast.walk(st)):
                    break
    return obs
