"""the desugaring pass is an equivalence: original and rewritten snippets agree on sample inputs (a test of the tool, not of torchtt)"""
import ast, itertools, sys
sys.path.insert(0, "/verif")
from ttsa.desugar import desugar, SEQ_TEST
import collections.abc

SNIPPETS = [
("""
def f(x, y):
    match x:
        case 'c':
            r = 1
        case 'r' | 's':
            r = 2
        case None:
            r = 3
        case int():
            r = 4
        case _:
            r = 5
    return r
""", [("c", 0), ("r", 0), ("s", 0), (None, 0), (3, 0), (True, 0), (2.5, 0), ([], 0)]),
("""
def f(x, y):
    match (x, y):
        case (True, True):
            return 1
        case (False, False):
            return 2
        case _:
            return 3
""", [(True, True), (False, False), (True, False), (1, 1), (0, 0)]),
("""
def f(x, y):
    match x:
        case []:
            return 0
        case [tuple(), *_]:
            return 1
        case [int() as k, _]:
            return k + 10
        case _:
            return 3
""", [([], 0), ([(1, 2)], 0), ([(1, 2), 3], 0), ([1, 2], 0), ([1, 2, 3], 0), ((), 0), ("ab", 0), (5, 0), (range(0), 0), (((1,), 2), 0)]),
("""
def f(x, y):
    match len(x):
        case 0:
            return 'e'
        case 1:
            return 'one'
    return 'many'
""", [([], 0), ([1], 0), ([1, 2], 0)]),
("""
def f(x, y):
    a = [1, *[y]*(x-1), 1]
    b = (0, *a, 9)
    c = [*a]
    d = [*(t+1 for t in a), *(t for t in a)]
    return a, b, c, d, [x, *range(3)]
""", [(1, 5), (3, 2), (0, 0)]),
("""
def f(x, y):
    return (0 <= x < y), (not 0 <= x < y), (x < y <= 3 < 7), isinstance(x, int | float), isinstance(y, (int | float) | str)
""", [(0, 1), (2, 1), (-1, 5), (1, 3), ("a", "b"), (1.5, 2)]),
("""
def f(x, y):
    one = lambda *s: sum(s) + x
    if not (n := x + y) > 0:
        return one(n)
    z = (m := n * 2) + n
    return one(m, z), list(zip([x], [y], strict=False)), list(t for t in range(y))
""", [(1, 2), (-3, 1), (0, 0)]),
("""
from functools import reduce
import functools
def f(x, y):
    t = reduce(lambda acc, i: acc * 2 + i, range(x), y)
    u = functools.reduce(lambda a, b: a + [b * t], [1, 2, y], [])
    t = reduce(lambda t0, i: t0 - i, [x, y], t)
    def g(z):
        return reduce(lambda p, q: p * q, range(1, z + 1), 1)
    return t, u, g(x % 5)
""", [(3, 1), (0, 2), (4, -1)]),
("""
import math
def f(x, y):
    if y == 2 ** (lv := int(math.log(max(y, 1), 2))):
        return lv
    if x > 0 and (q := x + 1) > 2:
        return q
    r = [x, (w := y * 2), w + 1]
    return r, (lv if x < 0 else 0)
""", [(1, 4), (1, 5), (2, 3), (0, 3), (-1, 8)]),
("""
def f(x, y):
    out = []
    for i in range(x):
        out.append(i)
        if i == y:
            break
    else:
        return out, 'done'
    for j in range(2):
        for k in range(2):
            if k == 1:
                break
        else:
            out.append('never')
    else:
        out.append('outer')
    while x > 0:
        x -= 1
        if x == y: break
    else:
        out.append('w')
    return out, 'broke'
""", [(3, 1), (3, 5), (0, 0), (5, 4)]),
]

def run(src, args):
    ns = {SEQ_TEST: lambda v: isinstance(v, collections.abc.Sequence) and not isinstance(v, (str, bytes, bytearray))}
    exec(compile(src, "<s>", "exec"), ns)
    try:
        return ("ok", ns["f"](*args))
    except Exception as e:
        return ("exc", type(e).__name__)

bad = 0
for src, inputs in SNIPPETS:
    tree = desugar(ast.parse(src))
    new = ast.unparse(tree)
    left = [n for n in ast.walk(tree) if isinstance(n, (ast.Match, ast.Lambda)) or (isinstance(n, ast.Starred) and isinstance(n.ctx, ast.Load) and False)]
    if left:
        print("NOT DESUGARED", new); bad += 1
    for a in inputs:
        r1, r2 = run(src, a), run(new, a)
        if r1 != r2:
            print("MISMATCH", a, r1, r2, "\n", new); bad += 1
print("desugar tests:", "FAIL" if bad else "ok")
sys.exit(1 if bad else 0)
