#!/bin/bash
# usage: seed_confirm.sh <seed dir>... : confirm (suite passes with the patch, demo fails with / passes without) and print one line per seed
for D in "$@"; do
  WT=/tmp/wt_conf_$$
  git -C /repo worktree add -q $WT HEAD || exit 3
  pd=$(cd $WT && OMP_NUM_THREADS=2 PYTHONPATH=$WT timeout 900 /venv/bin/python $D/demo.py >/dev/null 2>&1; echo $?)
  if git -C $WT apply $D/patch.diff 2>/dev/null; then
    md=$(cd $WT && OMP_NUM_THREADS=2 PYTHONPATH=$WT timeout 900 /venv/bin/python $D/demo.py >/dev/null 2>&1; echo $?)
    ts=$(cd $WT && OMP_NUM_THREADS=2 /venv/bin/python -m pytest -q -p no:cacheprovider --timeout=900 -n 6 2>&1 | tail -1)
    echo "$D pristine_demo=$pd patched_demo=$md suite: $ts"
  else
    echo "$D PATCH-DOES-NOT-APPLY"
  fi
  git -C /repo worktree remove --force $WT >/dev/null 2>&1
done
