#!/usr/bin/env python3
"""usage: alpha_rename.py <repo> <dst> [suffix] - copy <repo>/torchtt and cpp/ to <dst> with every local variable renamed"""
import os
import shutil
import sys

sys.path.insert(0, os.path.dirname(os.path.dirname(os.path.abspath(__file__))))
from ttsa.alpha import rename_tree  # noqa: E402


def main():
    repo, dst = sys.argv[1], sys.argv[2]
    suffix = sys.argv[3] if len(sys.argv) > 3 else "_r"
    if os.path.exists(dst):
        shutil.rmtree(dst)
    os.makedirs(dst)
    for sub in ("torchtt", "cpp"):
        if os.path.isdir(os.path.join(repo, sub)):
            shutil.copytree(os.path.join(repo, sub), os.path.join(dst, sub), ignore=shutil.ignore_patterns("__pycache__"))
    print(f"renamed locals in {rename_tree(os.path.join(dst, 'torchtt'), suffix)} modules -> {dst}")


if __name__ == "__main__":
    main()
