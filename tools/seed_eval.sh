#!/bin/bash
# usage: seed_eval.sh <dir with patch.diff demo.py> [--tests]   : confirm a seeded change and run all registered checks against it
set -u
D=$1; RUNTESTS=${2:-}
WT=/tmp/wt_eval_$$
git -C /repo worktree add -q $WT HEAD || exit 3
cleanup() { git -C /repo worktree remove --force $WT >/dev/null 2>&1; rm -rf /tmp/ev_eval_$$; }
trap cleanup EXIT
echo "== pristine demo:"; (cd $WT && OMP_NUM_THREADS=2 PYTHONPATH=$WT timeout 600 /venv/bin/python $D/demo.py > /tmp/demo_out_$$ 2>&1; echo "exit $?"; tail -2 /tmp/demo_out_$$ | cut -c1-200)
if ! git -C $WT apply $D/patch.diff; then echo "PATCH DOES NOT APPLY"; exit 4; fi
echo "== patched demo:"; (cd $WT && OMP_NUM_THREADS=2 PYTHONPATH=$WT timeout 600 /venv/bin/python $D/demo.py > /tmp/demo_out_$$ 2>&1; echo "exit $?"; tail -3 /tmp/demo_out_$$ | cut -c1-300)
if [ "$RUNTESTS" = "--tests" ]; then
  echo "== test suite on patched tree:"; (cd $WT && OMP_NUM_THREADS=2 /venv/bin/python -m pytest -q -p no:cacheprovider --timeout=900 -n 6 2>&1 | tail -1)
fi
echo "== checks on patched tree:"
cd /verif
for p in $(python3 -c "import json; print(' '.join(c['property_id'] for c in json.load(open('/verif/MANIFEST.json'))['checks']))"); do
  out=$(TTSA_REPO=$WT TTSA_EVIDENCE_DIR=/tmp/ev_eval_$$ /venv/bin/python -m ttsa check $p --tier quick 2>&1); rc=$?
  if [ $rc -ne 0 ]; then echo "  $p exit $rc"; echo "$out" | grep -A2 "^VIOLATION\|^ANALYSIS-ERROR" | cut -c1-400 | head -8; fi
done
rm -f /tmp/demo_out_$$
