#!/usr/bin/env python3
"""usage: make_round.py <letter> <n> - writes the property excerpts and prompts of one round of the seeded campaign to /tmp
(props_<L>k.txt, seed_prompt_<L>k.txt) from /verif/properties.jsonl and tools/prompts/seed_prompt_template.txt; groups are given below"""
import json
import os
import re
import sys

VERIF = os.path.dirname(os.path.dirname(os.path.abspath(__file__)))
GROUPS = {
    "V": [("C01", "C09", "C14"), ("C02", "C10", "C15"), ("C03", "C11", "C18"), ("C04", "C12", "C20"), ("C05", "C07", "C13"), ("C06", "C08", "C19")],
    "X": [("C09", "C12", "C07"), ("C11", "C13", "C10"), ("C03", "C18", "C08")],
    "W": [("C01", "C05", "C11"), ("C03", "C08", "C13"), ("C07", "C10", "C19"), ("C02", "C12", "C18"), ("C04", "C09", "C15"), ("C06", "C14", "C20")],
}


def text(p):
    a = p["anchors"]
    mech = "; ".join(f"{m['name']} ({m['where']})" for m in a.get("mechanism", []))
    return (f"{p['id']}: {p['title']}\n\nStatement: {p['statement']}\n\nQuantifier: {p['quantifier']['text']}\n\n"
            f"Why the existing tests cannot settle it: {p['why_tests_cant']}\n\nAnchors: files {a.get('files')}; mechanisms: {mech}\n")


def main():
    letter, rnd = sys.argv[1], sys.argv[2]
    props = {}
    for line in open(os.path.join(VERIF, "properties.jsonl")):
        p = json.loads(line)
        props[p["id"]] = p
    tmpl = open(os.path.join(VERIF, "tools", "prompts", "seed_prompt_template.txt")).read()
    for k, grp in enumerate(GROUPS[letter], 1):
        g = f"{letter}{k}"
        open(f"/tmp/props_{g}.txt", "w").write("\n\n----------------------------------------\n\n".join(text(props[i]) for i in grp))
        s = tmpl.replace("@G@", g).replace("@P1@", grp[0]).replace("@P2@", grp[1]).replace("@P3@", grp[2]).replace("@R@", str(rnd))
        if len(sys.argv) > 3 and sys.argv[3] == "one":
            # a short round: one change per property
            s = s.replace("produce TWO different, independent source changes to the library (six in total; each one a separate small patch against the pristine worktree)",
                          "produce ONE source change to the library (three in total; each one a separate small patch against the pristine worktree)")
            s = s.replace("make the six changes", "make the three changes").replace("<property id>-<1|2>", "<property id>-1").replace("summarise the six changes", "summarise the three changes")
        open(f"/tmp/seed_prompt_{g}.txt", "w").write(s)
        print(g, grp)


if __name__ == "__main__":
    main()
