import sys, threading, os
sys.path.insert(0, os.path.dirname(os.path.dirname(os.path.abspath(__file__))))
sys.setrecursionlimit(20000)
threading.stack_size(512*1024*1024)
pat=sys.argv[1]
def run():
    from ttsa.model import Model
    from ttsa.e5 import obligations as ob
    m=Model()
    for s in ob.scenarios():
        if pat in s.name:
            o,_=ob.run_scenario(m,s)
            for x in o: print(s.name, "|", x.rule, x.status, x.key.split(":")[-1][:40], "|", x.detail[:300])
t=threading.Thread(target=run); t.start(); t.join()
