#!/usr/bin/env python3
"""usage: refresh_seed_meta.py [seed dir names...] - re-runs every registered quick check against each stored seeded change (patch applied to a
scratch worktree of /repo HEAD) and rewrites the *current* verdict in its meta.json; the recorded first evaluation is left untouched."""
import json
import os
import subprocess
import sys
from concurrent.futures import ThreadPoolExecutor

VERIF = os.path.dirname(os.path.dirname(os.path.abspath(__file__)))


def checks():
    return [c["property_id"] for c in json.load(open(os.path.join(VERIF, "MANIFEST.json")))["checks"]]


def one(name):
    d = os.path.join(VERIF, "seeded", name)
    wt = f"/tmp/wt_refresh_{name}"
    subprocess.run(["git", "-C", "/repo", "worktree", "add", "-q", wt, "HEAD"], check=True, capture_output=True)
    try:
        p = subprocess.run(["git", "-C", wt, "apply", os.path.join(d, "patch.diff")], capture_output=True)
        if p.returncode != 0:
            return name, None
        out = {}
        for pid in checks():
            env = dict(os.environ, TTSA_REPO=wt, TTSA_EVIDENCE_DIR=f"/tmp/ev_refresh_{name}")
            r = subprocess.run(["/venv/bin/python", "-m", "ttsa", "check", pid, "--tier", "quick"], cwd=VERIF, env=env, capture_output=True)
            if r.returncode != 0:
                out[pid] = r.returncode
        return name, out
    finally:
        subprocess.run(["git", "-C", "/repo", "worktree", "remove", "--force", wt], capture_output=True)
        subprocess.run(["rm", "-rf", f"/tmp/ev_refresh_{name}"])


def main():
    names = sys.argv[1:] or sorted(n for n in os.listdir(os.path.join(VERIF, "seeded")) if os.path.isfile(os.path.join(VERIF, "seeded", n, "meta.json")))
    with ThreadPoolExecutor(max_workers=10) as ex:
        for name, out in ex.map(one, names):
            mp = os.path.join(VERIF, "seeded", name, "meta.json")
            meta = json.load(open(mp))
            if out is None:
                print(name, "PATCH DOES NOT APPLY")
                continue
            sc = meta.setdefault("static_checks", {})
            det = sorted(p for p, rc in out.items() if rc == 1)
            unk = sorted(p for p, rc in out.items() if rc == 2)
            old = (sc.get("violation_reported_by"), sc.get("analysis_error_only (exit 2: changed code leaves the modelled fragment)"))
            if "first_evaluation" not in " ".join(sc.keys()):
                sc["first_evaluation (before any rule was added in response)"] = {"violation_reported_by": old[0] or [], "analysis_error_only": old[1] or [],
                                                                                  "verdict": sc.get("verdict", "")}
            sc["violation_reported_by"] = det
            sc["analysis_error_only (exit 2: changed code leaves the modelled fragment)"] = unk
            own = meta.get("property")
            sc["verdict"] = "detected" if own in det else ("detected by another property's check" if det else
                                                           ("flagged as unanalysable (exit 2), no verdict" if unk else "missed"))
            json.dump(meta, open(mp, "w"), indent=1)
            print(name, "->", sc["verdict"], det, unk, "" if (old[0], old[1]) == (det, unk) else "(changed)")


if __name__ == "__main__":
    main()
