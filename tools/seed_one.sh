#!/bin/bash
# usage: seed_one.sh <seed name under /verif/seeded or a dir with patch.diff> <Cxx>... : verbose result of the given checks on the patched tree
D=$1; shift
[ -d "$D" ] || D=/verif/seeded/$D
WT=/tmp/wt_one_$$
git -C /repo worktree add -q $WT HEAD || exit 3
git -C $WT apply $D/patch.diff || { echo noapply; git -C /repo worktree remove --force $WT; exit 3; }
for p in "$@"; do
  echo "--- $p"
  ( cd /verif; TTSA_REPO=$WT TTSA_EVIDENCE_DIR=/tmp/ev_one_$$ /venv/bin/python -m ttsa check $p 2>&1 | grep -A${CTX:-2} "^VIOLATION\|^ANALYSIS-ERROR" | cut -c1-${WIDTH:-420} | head -${LINES_MAX:-12}; )
done
rm -rf /tmp/ev_one_$$
git -C /repo worktree remove --force $WT
