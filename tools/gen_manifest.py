#!/usr/bin/env python3
"""Generates /verif/MANIFEST.json from the table below (kept in one place so it stays valid)."""
import json
import os

VERIF = os.path.dirname(os.path.dirname(os.path.abspath(__file__)))
PY = "/venv/bin/python"

CLAIMED = {
    # id: (technique, level text, level note, design ref)
    "C18": ("AST discipline lints (unraised exceptions, vacuous/constant guards, confirmed raise-guard table, "
            "axis-range use classification, definite assignment on a guard-correlated flow graph)",
            "Every live function of the package is scanned on each run; each rule instance is an obligation that is "
            "either discharged or reported with file:line. Decides the structural necessary conditions of 'incompatible "
            "operands raise': no rejection is dead code, no rejecting guard is constant, every confirmed incompatibility "
            "class has a guard reading both operands, axis parameters fail loudly, returned values are bound on all paths.",
            "decides guard presence/shape, not which exception type torch raises for delegated cases; domain assumption "
            "d >= 1; RAISE-TABLE is a frozen table confirmed by reading (89 entries)",
            "DESIGN.md section 4 C18"),
    "C01": ("truncation-allowance normal forms (rational-exponent monomials over eps, ||s||, d) traced interprocedurally, "
            "decision-table check of the rank selector, def-use rule for the rmax cap, orientation rule for the SVD wrapper",
            "Clause level: decides the premises of the TT-SVD error theorem that are visible in the code (per-bond allowance "
            "eps*||s||/sqrt(d-1) with the constructor's eps; rank decision total over the orderings of (discarded energy, "
            "threshold) and minimal; all three SVD factors cut at min(rank_chop, rmax); SVD wrapper returns factors of its "
            "argument in both branches). Loosening edits fire, tightening edits pass.",
            "does not decide the floating-point inequality, SVD library accuracy, or 'rank <= exact unfolding rank' beyond "
            "minimality of the selector",
            "DESIGN.md section 4 C01, section 3 E4"),
    "C02": ("must-pass-through / def-use rule for orthogonalise-then-truncate, sweep-direction rule, truncation-allowance "
            "normal forms, rmax cap rule, effect analysis for operand intactness",
            "Clause level: decides the premises of the TT-rounding bound (orthogonalisation dominates and feeds the truncating "
            "sweep; opposite sweep directions over all bonds; both rank_chop sites use eps*||S||/sqrt(d-1) with TT.round's "
            "eps; ranks capped; operand not written).",
            "does not decide the eps bound in floating point nor QR/SVD accuracy",
            "DESIGN.md section 4 C02"),
    "C03": ("contraction-structure type checking: abstract interpretation of the core-building code over symbolic sizes and contraction networks (merged / block-partitioned axes), per position class and structural path, compared by canonical form with chain specifications; name resolution; definite assignment; dtype rule",
            "Exact-arithmetic identity for every order d and every mode/rank size: each arithmetic entry point (+, -, *, scalar ops from "
            "both sides, unary minus, scalar division, Kronecker product, full(), factories) is typed on every structural path "
            "(operand kinds, equal vs broadcast shapes, zero scalar, d = 1) and every position class; the produced cores must be the "
            "specified sum-strand / product-strand / concatenated chain with one scalar factor per strand (Lemmas 1-3, DESIGN.md App. A).",
            "exact arithmetic; torch primitive semantics as modelled in ttsa/e5/net.py; scalar operands treated as real under conjugation",
            "DESIGN.md section 4 C03, section 3 E5"),
    "C04": ("contraction-structure type checking: abstract interpretation of the core-building code over symbolic sizes and contraction networks (merged / block-partitioned axes), per position class and structural path, compared by canonical form with chain specifications",
            "Same for TT-matrix algebra: A@x, x@A, A@B (row/column modes are distinct roles), A@dense as a sweep invariant valid for any "
            "number of leading batch axes, transpose, operator +, -, *, scalar ops, operator full() for d <= 3.",
            "exact arithmetic; operator full() de-interleaving is decided for concrete orders 1..3 only",
            "DESIGN.md section 4 C04"),
    "C07": ("sweep-state typing (E5, Lemma 3) of norm/dot/sum/bilinear form; structural QR-carry rule; name resolution incl. installed "
            "third-party namespace; definite assignment; axis-range rule",
            "For the Gram-chain norm (tensor/operator, squared/plain), dot (full), sum over all modes and the bilinear form: initial "
            "state, one generic loop step and the closing expression are the specified contraction networks (open bonds, conjugated "
            "operand, tied/summed modes) for every order incl. d = 1; the QR branch of norm is decided structurally; every order reaches "
            "a value (definite assignment, attribute existence).",
            "partial sums / dot along selected modes are decided for concrete small orders only (see evidence); numerical stability is not decided",
            "DESIGN.md section 4 C07"),
    "C08": ("contraction-structure type checking (E5) of __getitem__/reduce_dims on concrete small orders via the closed value of the "
            "returned train; sweep typing of apply_mask; constructor-argument kind rule",
            "Clause level: for orders 1-3 (operators: 2) and symbolic sizes/indices/slices, on every structural path (which kept modes have "
            "size 1, rank orderings inside reduce_dims) x[index] has the dense value and shape of x.full()[index]; apply_mask is the "
            "specified batched chain for every order.",
            "orders above 3 and per-axis slice arithmetic (negative indices, steps: torch's own) are not decided",
            "DESIGN.md section 4 C08"),
    "C09": ("contraction-structure type checking: abstract interpretation of the core-building code over symbolic sizes and contraction networks (merged / block-partitioned axes), per position class and structural path, compared by canonical form with chain specifications",
            "diag (both directions), to_ttm, conj, clone per position class; cat/pad/mprod scenarios as listed in the evidence.",
            "exact arithmetic", "DESIGN.md section 4 C09"),
    "C20": ("sweep-state typing (E5) of LinearLayerTT.forward over a symbolic number of batch axes + parameter-registration rule on __init__",
            "forward is the specified sweep: each tensordot contracts the first remaining input mode with the core's column axis and the "
            "running bond with the core's left bond; produced row modes are appended in order; bias added over the produced modes; "
            "__init__ registers cores/bias as parameters with rows = output sizes in both initialiser branches.",
            "gradients follow from autograd's chain rule once the forward value is the specified polynomial (C15); initialiser variance not decided",
            "DESIGN.md section 4 C20"),
    "C05": ("class-invariant check: constructor coverage (FIELDS), guard table and axis derivation (ESTABLISH), writer "
            "obligations (PRESERVE), who-may-write over effect summaries (WHO-WRITES), constructor-argument kinds (CTOR-ARG), "
            "getter copy rule",
            "Inductive argument over all call histories: the invariant is established by the constructor (validation guards "
            "dominate the store of the cores; N/M/R derived from the right axes; every leaf branch assigns every field), "
            "preserved by the only mutators (set_core guards ranks/axis count, re-derives N/M, recomputes shape; reduce_dims "
            "rebuilds all metadata from the new cores), nobody else writes the fields or a received core list, getters hand out "
            "copies, and internal constructor calls pass core lists. Each link is an obligation decided on the source.",
            "does not decide run-time shapes produced by torch; objects whose t.cores the user assigns directly are outside the API",
            "DESIGN.md section 4 C05"),
    "C06": ("interprocedural alias/mutation effect analysis (origins of tensors, views and lists; bottom-up summaries "
            "over the resolved call graph; who-may-write rule against the documented in-place API)",
            "For every public entry point and every parameter the summary must contain no in-place tensor write, "
            "subscript/attribute store or list mutation on an object reachable from that parameter (views and shallow "
            "copies keep the operand's storage as origin), except the documented in-place API (set_core, reduce_dims, "
            "grad.watch/unwatch). Because no operand is ever written, results sharing storage with operands keep their "
            "value over any later history (inductive argument over all call sequences).",
            "decides writes performed by repository code; user callbacks, the C++ extension and user code holding "
            "t.cores are assumed not to write; one named exception (amen_divide final rescale, re-verified each run)",
            "DESIGN.md section 4 C06, section 3 E3"),
    "C19": ("writer/reader key-table agreement (KEYS), pickle-payload sanitisation rule with provenance of numpy integers "
            "(PICKLE-SAFE), effect analysis of clone (CLONE-FRESH), per-core wrapper shape rule (WRAPPERS), name resolution",
            "save and load agree on the dictionary keys in every branch with 'cores' bound to the operand's own core list, load "
            "rebuilds through TT(list) only; rank/shape lists are pickled as Python ints; clone returns no storage shared with "
            "the operand; detach/to/cpu/cuda map each core in order through the like-named torch method.",
            "does not decide torch.save/torch.load bit-identity itself nor device transfers",
            "DESIGN.md section 4 C19"),
    "C10": ("cursor-drain rule on the merge/split loop of reshape (roles of the two cursors derived from the code), "
            "truncation-allowance normal forms for permute/reshape, gauge rule (orthogonalise first, fresh rank list), "
            "effect analysis for operand intactness",
            "Clause level: decides the structural necessary conditions of reshape/permute: every exit of reshape's "
            "merge/split loop drains the other cursor (leftover singleton cores are contracted into the last core, "
            "leftover unit targets appended, tensors and operators alike); permute's per-swap allowance has exponent of d "
            "<= -1 and carries the caller's eps; reshape's split allowance is eps/sqrt(dfin-1); both orthogonalise the "
            "operand first and never write it.",
            "does not decide the eps bound in floating point, rank optimality, nor the element order of torch.reshape; "
            "to_qtt/qtt_to_tens only through the discipline rules",
            "DESIGN.md section 4 C10"),
    "C11": ("empty-reduction rule (reductions over lists of symbolic length d-1 dominated by a d = 1 guard), definite "
            "assignment, result-shape provenance rule, effect analysis of the initial guess, E5 wrapper scenarios with "
            "compatibility postconditions",
            "Clause level: decides only that every order d >= 1 reaches a result in the DMRG/AMEn product routines, that the "
            "result's mode sizes are taken from the operator's row modes (resp. first factor), that the kind/shape guards "
            "precede the solver call, and that the initial guess is never written.",
            "the eps accuracy, convergence of randomised sweeps and seed independence are runtime quantities and NOT decided",
            "DESIGN.md section 4 C11"),
    "C14": ("symbolic shape rule for the rank-enrichment (kick) bookkeeping at the four QR sites of dmrg_cross / "
            "function_interpolate, effect analysis of the start tensor, name resolution",
            "Clause level: decides only the enrichment shape obligation r + radd = columns of the R factor for every mode "
            "size (including mode sizes below rank + kick) and that the user's start tensor is copied, not written.",
            "recovery accuracy, maxvol quality, seed independence and index provenance (every sampled index column in "
            "[0, N[k])) are NOT decided",
            "DESIGN.md section 4 C14"),
    "C15": ("graph-cut rule over the call-graph closure of the differentiable operations (no .numpy/.item/.detach/.data/"
            "no_grad/re-wrap of tensor data), leaf-write rule via effect analysis, norm branch rule, grad collection rule",
            "Decides the 'connected to the leaves by differentiable operations only' half of gradient correctness for every "
            "differentiable operation of the property; together with the forward-value checks (C03/C04/C07/C08/C09/C20) "
            "autograd's chain rule gives the dense derivative. grad.grad / grad_list return c.grad of exactly the watched "
            "cores in order; norm uses the differentiable Gram chain whenever any core is tracked.",
            "assumes autograd's chain rule for torch primitives; numerical agreement with finite differences not decided",
            "DESIGN.md section 4 C15"),
    "C12": ("contraction-structure type checking (E5) of the local operator in every formulation, layout-agnostic adjointness of the "
            "interface recursions, statement-level shape typing of the sweep bodies by unification over independent rank families "
            "(IFACE-TYPE), constructor-field rule (DEF-ATTR), effect analysis, definite assignment, name resolution",
            "Clause level: decides that every local problem the AMEn sweeps assemble is the Galerkin projection of A x = b: the einsum "
            "local product, the tensordot matvec with and without preconditioner, the fused preconditioned contractions, apply_prec "
            "and the Jacobi blocks denote one operator; the interface recursions are adjoint to it; every tensor statement of both "
            "sweeps (local products, right-hand sides, dense local matrix and its flattening orders, residual forms, interface "
            "updates) types consistently at positions k / k+1; the operator object has every field it reads in every "
            "(preconditioner x band) configuration; operands and initial guess are never written.",
            "the residual bound, convergence, conditioning and seed independence are runtime quantities and NOT decided; real operands; "
            "band-diagonal products not modelled; trunc_norm='fro' is outside the quantifier",
            "DESIGN.md section 4 C12"),
    "C13": ("who-is-the-divisor routing rule at every amen_divide call site, contraction-structure type checking (E5) of the diagonal "
            "local operator and its interfaces, statement-level shape typing of amen_divide's sweeps (IFACE-TYPE), constructor-field rule, "
            "effect analysis",
            "Clause level: decides that `x / y`, `s / y` and elementwise_divide(x, y) hand the divisor to the operator slot and the "
            "numerator to the right-hand-side slot of the diagonal AMEn solve; that the diagonal local operator has one meaning in "
            "every formulation; that all sweep statements type consistently; that division by a scalar is exact as a chain (C03 "
            "scenario) and no operand is written.",
            "accuracy of the quotient (inherits AMEn's convergence behaviour) is NOT decided",
            "DESIGN.md section 4 C13"),
    "C17": ("tolerant reader for cpp/*.h (function table, parameter kinds, PYBIND11 export table, #defines, expression grammar for "
            "tensor-algebra chains) + contraction-structure type checking (E5) of the C++ local operators against the same "
            "specifications as the Python siblings; binding/arity/kind/role table rule; preconditioner code table; dispatch rule; "
            "constant normal forms",
            "Clause level: decides the interface and sibling clauses of 'both backends obey the same contracts': exported names, "
            "arity, kinds and roles of every positional argument of torchttcpp.amen_solve / dmrg_mv; preconditioner codes; C++ local "
            "product, interface recursions, operator object (both Jacobi preconditioners) and dense local matrix denote the specified "
            "networks; real_tol / damp / rank-selection test agree; every input rejection precedes the backend choice.",
            "agreement of the computed results and the accuracy contracts of the compiled solver need both backends to run: NOT decided; "
            "the C++ sweep bodies (bookkeeping of ranks, enrichment) are not typed",
            "DESIGN.md section 4 C17"),
}

NOT_APPLICABLE = {
    "C16": "Riemannian projector identities (idempotent, self-adjoint, orthogonal residual, AD gradient = projection) are "
           "numerical consequences of QR orthogonality; no necessary condition of them is visible in the shape of the code "
           "(DESIGN.md section 4 C16).",
}

PENDING_REASON = "static check for this property is not built yet in this round (DESIGN.md section 9 build order); " \
                 "no claim is made until its check is registered"


def main():
    props = [json.loads(l) for l in open(os.path.join(VERIF, "properties.jsonl"))]
    checks, na = [], []
    for p in props:
        pid = p["id"]
        if pid in CLAIMED:
            tech, text, note, ref = CLAIMED[pid]
            checks.append({
                "property_id": pid,
                "quick_cmd": f"{PY} -m ttsa check {pid} --tier quick",
                "thorough_cmd": f"{PY} -m ttsa check {pid} --tier thorough",
                "evidence_file": f"/verif/evidence/{pid}.json",
                "replay_cmd_template": f"{PY} -m ttsa replay {{path}}",
                "engine": "ttsa",
                "level_claimed": {"category": "other", "text": text, "design_ref": ref},
                "level_note": note,
                "technique": "static analysis: " + tech,
            })
        elif pid in NOT_APPLICABLE:
            na.append({"property_id": pid, "reason": NOT_APPLICABLE[pid]})
        else:
            na.append({"property_id": pid, "reason": PENDING_REASON})
    man = {
        "version": 1,
        "setup_cmd": f"{PY} -m ttsa selftest --reduced",
        "hooks": {
            "guard": "TORCHTT_VERIF",
            "enable": "no hooks: the checks read /repo's source and never execute it; no instrumentation commits exist",
            "baseline_off_cmd": "cd /repo && /venv/bin/python -m pytest -ra -q -p no:cacheprovider --timeout=900 "
                                "--continue-on-collection-errors",
            "source_commits": [],
            "add_only": True,
        },
        "engines": [
            {"name": "ttsa", "path": "/verif/ttsa", "serves_properties": sorted(CLAIMED),
             "kind_free_text": "repository-specific static analyser (Python ast): program model with resolved imports and "
                               "callees, discipline lints, alias/mutation effect analysis, truncation-allowance normal "
                               "forms, contraction-structure type checker for einsum/reshape/pad code, tolerant C++ parser"},
        ],
        "checks": checks,
        "not_applicable": na,
        "notes": "All checks are static: they parse /repo's working tree on every run and never import or execute torchtt. "
                 "Exit 0 = all obligations discharged; exit 1 + VIOLATION = a named construct contradicts a rule; exit 2 + "
                 "ANALYSIS-ERROR = the analysis could not be carried out (anchor vanished, unmodelled construct). "
                 "Genuine defects found by the checks were repaired by `fix:` commits in /repo and are listed in "
                 "/verif/known_findings.jsonl.",
    }
    with open(os.path.join(VERIF, "MANIFEST.json"), "w") as f:
        json.dump(man, f, indent=1)
    print(f"MANIFEST.json: {len(checks)} checks, {len(na)} not_applicable")


if __name__ == "__main__":
    main()
