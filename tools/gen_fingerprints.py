#!/usr/bin/env python3
"""usage: gen_fingerprints.py [repo] - writes ttsa/anchor_fingerprints.json: a name-free fingerprint of every module-level function and class
of the package as it is on the pinned tree.  The model uses it to recognise a private helper that was merely *renamed* (ttsa/model.py)."""
import json
import os
import sys

sys.path.insert(0, os.path.dirname(os.path.dirname(os.path.abspath(__file__))))
from ttsa.model import Model, fingerprint_module  # noqa: E402


def main():
    repo = sys.argv[1] if len(sys.argv) > 1 else "/repo"
    m = Model(repo, unrename=False)
    out = {name: fingerprint_module(mod.tree) for name, mod in sorted(m.modules.items())}
    dst = os.path.join(os.path.dirname(os.path.dirname(os.path.abspath(__file__))), "ttsa", "anchor_fingerprints.json")
    json.dump(out, open(dst, "w"), indent=1, sort_keys=True)
    print(f"{sum(len(v) for v in out.values())} definitions in {len(out)} modules -> {dst}")


if __name__ == "__main__":
    main()
