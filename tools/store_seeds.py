#!/usr/bin/env python3
"""Copies confirmed seeded changes from a staging area into /verif/seeded/<Cxx-k>/ (patch.diff, demo.py, meta.json).

usage: store_seeds.py <staging root, e.g. /tmp> <confirm log>... ; check outcomes are read from --checks <file> (output of tools/seed_checks.sh);
--prefix S2- names the stored directories S2-Cxx-k (later rounds of the campaign); --first <json> records the outcome of the first evaluation
(before any rule was added in response), as {"Cxx-k": "C05=1 C18=2"}"""
import json
import os
import re
import shutil
import sys

VERIF = os.path.dirname(os.path.dirname(os.path.abspath(__file__)))


def main():
    args = sys.argv[1:]
    checks_file = None
    if "--checks" in args:
        i = args.index("--checks")
        checks_file = args[i + 1]
        del args[i:i + 2]
    prefix, first = "", {}
    if "--prefix" in args:
        i = args.index("--prefix")
        prefix = args[i + 1]
        del args[i:i + 2]
    if "--first" in args:
        i = args.index("--first")
        first = json.load(open(args[i + 1]))
        del args[i:i + 2]
    root, logs = args[0], args[1:]
    confirmed = {}
    for lg in logs:
        for line in open(lg):
            m = re.match(r"(\S+/seeded_(C\d\d)/(\d)) pristine_demo=(\d+) patched_demo=(\d+) suite: (.*)", line.strip()) or \
                re.match(r"(\S+/seeded\d_[STUVWX]\d/(C\d\d)-(\d)) pristine_demo=(\d+) patched_demo=(\d+) suite: (.*)", line.strip())
            if m:
                confirmed[(m.group(2), m.group(3))] = dict(dir=m.group(1), pristine_demo_exit=int(m.group(4)), patched_demo_exit=int(m.group(5)), suite=m.group(6))
    outcomes = {}
    if checks_file:
        for line in open(checks_file):
            m = re.match(r"\S+/seeded_(C\d\d)/(\d) :(.*)", line.strip()) or re.match(r"\S+/seeded\d_[STUVWX]\d/(C\d\d)-(\d) :(.*)", line.strip())
            if m:
                outcomes[(m.group(1), m.group(2))] = {k: int(v) for k, v in (x.split("=") for x in m.group(3).split())}
    n = 0
    for (pid, k), c in sorted(confirmed.items()):
        ok = c["pristine_demo_exit"] == 0 and c["patched_demo_exit"] == 1 and "passed" in c["suite"] and "failed" not in c["suite"]
        if not ok:
            print("NOT CONFIRMED", pid, k, c)
            continue
        dst = os.path.join(VERIF, "seeded", f"{prefix}{pid}-{k}")
        os.makedirs(dst, exist_ok=True)
        shutil.copy(os.path.join(c["dir"], "patch.diff"), os.path.join(dst, "patch.diff"))
        shutil.copy(os.path.join(c["dir"], "demo.py"), os.path.join(dst, "demo.py"))
        notes = open(os.path.join(c["dir"], "notes.txt")).read().strip() if os.path.exists(os.path.join(c["dir"], "notes.txt")) else ""
        oc = outcomes.get((pid, k), {})
        detected = sorted(p for p, rc in oc.items() if rc == 1)
        unknown = sorted(p for p, rc in oc.items() if rc == 2)
        meta = {
            "property": pid,
            "seed": f"{prefix}{pid}-{k}",
            "what_it_needs_to_manifest": notes,
            "confirmed": {
                "how": "tools/seed_confirm.sh: scratch worktree of /repo HEAD; demo.py on the pristine tree, patch applied with `git apply`, demo.py again, "
                       "then the pinned test suite on the patched tree",
                "demo_exit_pristine": c["pristine_demo_exit"], "demo_exit_patched": c["patched_demo_exit"], "test_suite_on_patched_tree": c["suite"],
            },
            "static_checks": {
                "how": "tools/seed_checks.sh: every registered quick check with TTSA_REPO pointing at the patched scratch worktree",
                "violation_reported_by": detected,
                "analysis_error_only (exit 2: changed code leaves the modelled fragment)": unknown,
                "verdict": "detected" if detected else ("flagged as unanalysable (exit 2), no verdict" if unknown else "missed"),
            },
        }
        if f"{pid}-{k}" in first:
            fo = {a: int(b) for a, b in (x.split("=") for x in first[f"{pid}-{k}"].split())}
            meta["static_checks"]["first_evaluation (before any rule was added in response to this round)"] = {
                "violation_reported_by": sorted(p for p, rc in fo.items() if rc == 1), "analysis_error_only": sorted(p for p, rc in fo.items() if rc == 2),
                "verdict": "detected" if fo.get(pid) == 1 else ("detected by another property's check" if 1 in fo.values() else
                                                               ("flagged as unanalysable (exit 2), no verdict" if 2 in fo.values() else "missed"))}
        with open(os.path.join(dst, "meta.json"), "w") as f:
            json.dump(meta, f, indent=1)
        n += 1
    print(f"stored {n} seeds")


if __name__ == "__main__":
    main()
