#!/usr/bin/env python3
"""usage: idiom_tree.py <repo> <dst> <rewrite> - copy the repository to <dst> and apply one behaviour-preserving idiom rewrite (ttsa/idioms.py)
to every module of the package"""
import os
import shutil
import sys

sys.path.insert(0, os.path.dirname(os.path.dirname(os.path.abspath(__file__))))
from ttsa.idioms import rewrite_tree, REWRITES  # noqa: E402


def main():
    repo, dst, which = sys.argv[1], sys.argv[2], sys.argv[3]
    if os.path.exists(dst):
        shutil.rmtree(dst)
    os.makedirs(dst)
    for sub in ("torchtt", "cpp", "tests"):
        if os.path.isdir(os.path.join(repo, sub)):
            shutil.copytree(os.path.join(repo, sub), os.path.join(dst, sub), ignore=shutil.ignore_patterns("__pycache__"))
    for w in (REWRITES if which == "all" else [which]):
        print(f"{w}: {rewrite_tree(os.path.join(dst, 'torchtt'), w)} modules rewritten")


if __name__ == "__main__":
    main()
