#!/usr/bin/env python3
"""usage: gen_campaign_table.py - prints the markdown tables of the seeded-change campaign (from /verif/seeded/*/meta.json)"""
import json
import os

VERIF = os.path.dirname(os.path.dirname(os.path.abspath(__file__)))


def round_of(name):
    return 2 if name.startswith("S2-") else (3 if name.startswith("S3-") else (4 if name.startswith("S4-") else (5 if name.startswith("S5-") else (6 if name.startswith("S6-") else (7 if name.startswith("S7-") else 1)))))


def first_key(sc):
    for k in sc:
        if k.startswith("first_evaluation"):
            return k
    return None


def short(v):
    return {"detected": "detected", "missed": "missed"}.get(v, "exit 2" if v.startswith("flagged") else ("other check" if v.startswith("detected by another") else v[:28]))


def main():
    rows = {1: [], 2: [], 3: [], 4: [], 5: [], 6: [], 7: []}
    root = os.path.join(VERIF, "seeded")
    for n in sorted(os.listdir(root)):
        mp = os.path.join(root, n, "meta.json")
        if not os.path.isfile(mp):
            continue
        m = json.load(open(mp))
        sc = m.get("static_checks", {})
        note = (m.get("what_it_needs_to_manifest") or "").strip().split("\n")[0]
        note = note.replace("|", "/")[:150]
        det = sc.get("violation_reported_by", [])
        unk = [x for k, v in sc.items() if k.startswith("analysis_error_only") for x in v]
        fk = first_key(sc)
        first = sc[fk]["verdict"] if fk else sc.get("verdict", "")
        now = sc.get("verdict", "")
        by = ("by " + ", ".join(det)) if det else (("exit 2: " + ", ".join(unk)) if unk else "")
        rows[round_of(n)].append((n, note, short(first) if fk else "(as now)", short(now), by))
    for r in (1, 2, 3, 4, 5, 6, 7):
        rs = rows[r]
        if not rs:
            continue
        cnt = lambda col, val: sum(1 for x in rs if x[col] == val)
        print(f"\n**Round {r}** ({len(rs)} changes). Now: {cnt(3, 'detected')} detected by the property's own check, {cnt(3, 'other check')} by another property's check, "
              f"{cnt(3, 'exit 2')} exit 2, {cnt(3, 'missed')} missed."
              + ("" if r == 1 else f" At the first evaluation (before anything was changed in response): {cnt(2, 'detected')} detected, {cnt(2, 'other check')} by another check, "
                 f"{cnt(2, 'exit 2')} exit 2, {cnt(2, 'missed')} missed."))
        print("\n| seed | change (first line of the author's note) | first evaluation | now |")
        print("|---|---|---|---|")
        for n, note, first, now, by in rs:
            print(f"| {n} | {note} | {first} | {'**' + now + '**' if now in ('missed',) else now} {by} |")


if __name__ == "__main__":
    main()
