#!/bin/bash
# usage: seed_checks.sh <seed dir>... : apply each patch to a scratch worktree of /repo HEAD and run every registered check (static, no demo)
for D in "$@"; do
  WT=/tmp/wt_chk_$$
  git -C /repo worktree add -q $WT HEAD || exit 3
  if git -C $WT apply $D/patch.diff 2>/dev/null; then
    res=""
    for p in $(python3 -c "import json; print(' '.join(c['property_id'] for c in json.load(open('/verif/MANIFEST.json'))['checks']))"); do
      ( cd /verif; TTSA_REPO=$WT TTSA_EVIDENCE_DIR=/tmp/ev_chk_$$_$p /venv/bin/python -m ttsa check $p --tier quick > /tmp/chk_$$_$p.out 2>&1; echo $? > /tmp/chk_$$_$p.rc ) &
    done
    wait
    for f in /tmp/chk_$$_*.rc; do
      p=$(basename $f .rc | sed "s/chk_$$_//"); rc=$(cat $f)
      if [ "$rc" != "0" ]; then res="$res $p=$rc"; fi
    done
    echo "$D :$res"
    if [ -n "${VERBOSE:-}" ]; then
      for f in /tmp/chk_$$_*.rc; do p=$(basename $f .rc | sed "s/chk_$$_//"); rc=$(cat $f); if [ "$rc" != "0" ]; then echo "   --- $p"; grep -A2 "^VIOLATION\|^ANALYSIS-ERROR" /tmp/chk_$$_$p.out | cut -c1-330 | head -${LINES_MAX:-9}; fi; done
    fi
    rm -rf /tmp/chk_$$_* /tmp/ev_chk_$$_*
  else
    echo "$D PATCH-DOES-NOT-APPLY"
  fi
  git -C /repo worktree remove --force $WT >/dev/null 2>&1
done
